"""Typed expression trees of the PyProg mini-language (C01/C03/C08).

Tree nodes:  ('leaf', text, type) | ('bin', op, l, r) | ('un', op, x) | ('tern', c, x, y) | ('chain', [ops], [operands])
             | ('in', neg, x, [items])
Types: 'int' | 'bool'. Typing rules forbid what the property excludes (and/or/not on non-bools, int true division).
Rendering: minimal parentheses by Python precedence (so the transpiler must reproduce the grouping), or full.
"""
import itertools

INT_BIN = ['+', '-', '*', '%', '|', '^', '&', '<<', '>>']
INT_UN = ['-', '+', '~']
BOOL_ARITH = ['+', '-', '*']
CMP = ['<', '>', '<=', '>=', '==', '!=']
BOOL_BIN = ['and', 'or']

PREC = {'tern': 1, 'or': 2, 'and': 3, 'not': 4, 'cmp': 5, '|': 6, '^': 7, '&': 8, '<<': 9, '>>': 9, '+': 10, '-': 10, '*': 11, '%': 11, 'un': 12, 'leaf': 13}


def typ(t):
    k = t[0]
    if k == 'leaf':
        return t[2]
    if k == 'bin':
        return 'int' if t[1] in INT_BIN else 'bool'
    if k == 'un':
        return 'bool' if t[1] == 'not' else 'int'
    if k == 'tern':
        return typ(t[2])
    return 'bool'


def prec(t):
    k = t[0]
    if k == 'leaf':
        return 13 if not t[1].startswith('-') else 12
    if k == 'bin':
        return PREC[t[1]] if t[1] in PREC else 5
    if k == 'un':
        return 4 if t[1] == 'not' else 12
    if k == 'tern':
        return 1
    return 5   # chain, in


def render(t, full=False, leaf_parens=False) -> str:
    """full: every compound operand parenthesised; leaf_parens: minimal parentheses plus a redundant pair around every leaf."""
    k = t[0]
    if k == 'leaf':
        return f'({t[1]})' if leaf_parens else t[1]

    def sub(c, need):
        s = render(c, full, leaf_parens)
        if c[0] == 'leaf':
            return s
        return f'({s})' if (full or need) else s
    if k == 'bin':
        op, l, r = t[1], t[2], t[3]
        p = prec(t)
        if p == 5:   # comparison: non-associative, nested comparisons always parenthesised
            return f'{sub(l, prec(l) <= 5)} {op} {sub(r, prec(r) <= 5)}'
        return f'{sub(l, prec(l) < p)} {op} {sub(r, prec(r) <= p)}'
    if k == 'un':
        op, x = t[1], t[2]
        if op == 'not':
            return f'not {sub(x, prec(x) < 4)}'
        return f'{op}{sub(x, prec(x) < 12)}'
    if k == 'tern':
        c, x, y = t[1], t[2], t[3]
        return f'{sub(x, prec(x) <= 1)} if {sub(c, prec(c) <= 1)} else {sub(y, False)}'
    if k == 'chain':
        ops, xs = t[1], t[2]
        out = sub(xs[0], prec(xs[0]) <= 5)
        for op, x in zip(ops, xs[1:]):
            out += f' {op} {sub(x, prec(x) <= 5)}'
        return out
    if k == 'in':
        neg, x, items = t[1], t[2], t[3]
        if items == 'XS':
            return f'{sub(x, prec(x) <= 5)} {"not in" if neg else "in"} XS'
        return f'{sub(x, prec(x) <= 5)} {"not in" if neg else "in"} [{", ".join(render(i, full, leaf_parens) for i in items)}]'
    raise ValueError(k)


def n_ops(t) -> int:
    k = t[0]
    if k == 'leaf':
        return 0
    if k == 'bin':
        return 1 + n_ops(t[2]) + n_ops(t[3])
    if k == 'un':
        return 1 + n_ops(t[2])
    if k == 'tern':
        return 1 + n_ops(t[1]) + n_ops(t[2]) + n_ops(t[3])
    if k == 'chain':
        return len(t[1]) + sum(n_ops(x) for x in t[2])
    if k == 'in':
        return 1 + n_ops(t[2])
    return 0


def op_classes(t) -> list:
    """Sorted operator classes occurring in t (for signatures)."""
    out = set()

    def rec(x):
        k = x[0]
        if k == 'bin':
            out.add(x[1] if x[1] not in CMP else 'cmp')
            rec(x[2])
            rec(x[3])
        elif k == 'un':
            out.add('unary' + x[1] if x[1] != 'not' else 'not')
            rec(x[2])
        elif k == 'tern':
            out.add('ternary')
            rec(x[1])
            rec(x[2])
            rec(x[3])
        elif k == 'chain':
            out.add('cmp-chain')
            for y in x[2]:
                rec(y)
        elif k == 'in':
            out.add(('not in' if x[1] else 'in') + ('' if x[3] == 'XS' else '-literal'))
            rec(x[2])
    rec(t)
    return sorted(out)


class Shapes:
    """Enumerates typed trees with exactly n operator nodes; leaves are placeholders filled by position."""

    def __init__(self):
        self.cache = {}

    def trees(self, n: int, t: str):
        key = (n, t)
        if key in self.cache:
            return self.cache[key]
        out = []
        if n == 0:
            out = [('hole', t)]
        else:
            if t == 'int':
                for op in INT_BIN:
                    for l, r in self.split2(n - 1, 'int', 'int'):
                        out.append(('bin', op, l, r))
                # bool operands of arithmetic promote to int in both languages (the stub library declares bool.__add__ -> int)
                for op in BOOL_ARITH:
                    for t1, t2 in (('bool', 'bool'), ('int', 'bool'), ('bool', 'int')):
                        for l, r in self.split2(n - 1, t1, t2):
                            out.append(('bin', op, l, r))
                for op in INT_UN:
                    for x in self.trees(n - 1, 'int'):
                        out.append(('un', op, x))
                for c, x, y in self.split3(n - 1, 'bool', 'int', 'int'):
                    out.append(('tern', c, x, y))
            else:
                for op in CMP:
                    for l, r in self.split2(n - 1, 'int', 'int'):
                        out.append(('bin', op, l, r))
                for op in ('==', '!='):
                    for l, r in self.split2(n - 1, 'bool', 'bool'):
                        out.append(('bin', op, l, r))
                for op in BOOL_BIN:
                    for l, r in self.split2(n - 1, 'bool', 'bool'):
                        out.append(('bin', op, l, r))
                for x in self.trees(n - 1, 'bool'):
                    out.append(('un', 'not', x))
                for c, x, y in self.split3(n - 1, 'bool', 'bool', 'bool'):
                    out.append(('tern', c, x, y))
                if n >= 2:
                    # comparison chains a op b op c (counts as 2 operators)
                    for o1, o2 in itertools.product(['<', '<=', '==', '>'], repeat=2):
                        for xs in self.split_n(n - 2, ['int', 'int', 'int']):
                            out.append(('chain', [o1, o2], list(xs)))
                for neg in (False, True):
                    for x in self.trees(n - 1, 'int'):
                        out.append(('in', neg, x, 'XS'))
        self.cache[key] = out
        return out

    def split2(self, n, t1, t2):
        for i in range(n + 1):
            for l in self.trees(i, t1):
                for r in self.trees(n - i, t2):
                    yield l, r

    def split3(self, n, t1, t2, t3):
        for i in range(n + 1):
            for j in range(n - i + 1):
                for a in self.trees(i, t1):
                    for b in self.trees(j, t2):
                        for c in self.trees(n - i - j, t3):
                            yield a, b, c

    def split_n(self, n, types):
        if len(types) == 1:
            for x in self.trees(n, types[0]):
                yield (x,)
            return
        for i in range(n + 1):
            for x in self.trees(i, types[0]):
                for rest in self.split_n(n - i, types[1:]):
                    yield (x,) + rest


INT_ROT = [['a', 'b', '3', '1', 'a', '2', 'b'], ['b', '2', 'a', '3', 'b', '1', 'a']]
BOOL_ROT = [['p', 'q', 'True', 'p', 'False', 'q'], ['q', 'p', 'False', 'q', 'True', 'p']]


def fill(shape, rot: int):
    """Fill holes by position from the rotation lists (ints and bools separately)."""
    ci, cb = itertools.count(), itertools.count()

    def rec(t):
        k = t[0]
        if k == 'hole':
            if t[1] == 'int':
                return ('leaf', INT_ROT[rot][next(ci) % len(INT_ROT[rot])], 'int')
            return ('leaf', BOOL_ROT[rot][next(cb) % len(BOOL_ROT[rot])], 'bool')
        if k == 'bin':
            return ('bin', t[1], rec(t[2]), rec(t[3]))
        if k == 'un':
            return ('un', t[1], rec(t[2]))
        if k == 'tern':
            return ('tern', rec(t[1]), rec(t[2]), rec(t[3]))
        if k == 'chain':
            return ('chain', t[1], [rec(x) for x in t[2]])
        if k == 'in':
            return ('in', t[1], rec(t[2]), t[3] if t[3] == 'XS' else [rec(x) for x in t[3]])
        raise ValueError(k)
    return rec(shape)


def one_op_all_leaves():
    """1-operator trees over every leaf combination from a small leaf set."""
    ints = [('leaf', x, 'int') for x in ['a', 'b', '2', '0']]
    bools = [('leaf', x, 'bool') for x in ['p', 'q', 'True']]
    for op in INT_BIN:
        for l, r in itertools.product(ints, repeat=2):
            yield ('bin', op, l, r)
    for op in INT_UN:
        for x in ints:
            yield ('un', op, x)
    for op in BOOL_ARITH:
        for l, r in itertools.product(bools[:2], repeat=2):
            yield ('bin', op, l, r)
        yield ('bin', op, ints[0], bools[0])
        yield ('bin', op, bools[1], ints[1])
    for op in CMP:
        for l, r in itertools.product(ints, repeat=2):
            yield ('bin', op, l, r)
    for op in BOOL_BIN + ['==', '!=']:
        for l, r in itertools.product(bools, repeat=2):
            yield ('bin', op, l, r)
    for x in bools:
        yield ('un', 'not', x)
    for c in bools[:2]:
        yield ('tern', c, ints[0], ints[1])
        yield ('tern', c, bools[0], bools[1])
    for neg in (False, True):
        yield ('in', neg, ints[0], [ints[1], ints[2]])
        for x in ints:
            yield ('in', neg, x, 'XS')


def expression_trees(max_ops: int, rotations=(0,)):
    yield from one_op_all_leaves()
    sh = Shapes()
    for n in range(2, max_ops + 1):
        for t in ('int', 'bool'):
            for shape in sh.trees(n, t):
                for rot in rotations:
                    yield fill(shape, rot)
