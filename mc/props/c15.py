"""C15 -- the stored form of a syntax tree restores an identical tree.

Engine E2: every parse tree of the enumerated sentence corpus and of every real module is pushed through
(a) Serialization.dumps -> json -> Serialization.loads, (b) EntryStored.save/load on a byte stream,
(c) the real on-disk cache path (first session parses and stores, second session -- whose source provider
would fail if asked -- restores); trees are compared field by field, node trees path by path.
"""
import io
import json
import os

from mc.core import pool
from mc.gen import corpus

ID = 'C15'
LEVEL = 'exploration'

_state = {}


def _init_worker():
    from mc.tranp.session import Session
    from rogw.tranp.syntax.ast.parser import SyntaxParser
    s = Session({'__main__': 'a = 1\n'})
    _state['lark'] = s.get(SyntaxParser).dirty_get_origin()


def entry_diff(a, b, path):
    """First field-level difference between two Entry trees, or None."""
    fields = ['name', 'has_child', 'is_terminal', 'is_empty', 'value']
    for f in fields:
        if getattr(a, f) != getattr(b, f):
            return (f, path, getattr(a, f), getattr(b, f))
    if a.source_map != b.source_map:
        return ('source_map', path, a.source_map, b.source_map)
    ca, cb = a.children, b.children
    if len(ca) != len(cb):
        return ('children', path, len(ca), len(cb))
    for i, (x, y) in enumerate(zip(ca, cb)):
        d = entry_diff(x, y, f'{path}.{x.name}[{i}]')
        if d:
            return d
    return None


def count_entries(e):
    return 1 + sum(count_entries(c) for c in e.children)


def tree_roundtrips(text: str):
    """Returns list of violations for one source text (entry level), n_entries; None if lark rejects it."""
    import lark
    from rogw.tranp.implements.syntax.lark.entry import EntryOfLark, Serialization
    from rogw.tranp.implements.syntax.lark.parser import EntryStored
    try:
        tree = _state['lark'].parse(text if text.endswith('\n') else text + '\n')
    except Exception:  # noqa
        return None, 0
    viol = []
    org = EntryOfLark(tree)
    try:
        data = Serialization.dumps(tree)
        back = Serialization.loads(json.loads(json.dumps(data)))
        d = entry_diff(org, EntryOfLark(back), org.name)
        if d:
            viol.append((['dumps-loads', d[0], _tag(d[1])], f'{text!r}: field {d[0]} at {d[1]}: {d[2]!r} -> {d[3]!r}', {'src': text}))
        # idempotence of the encoding itself
        if Serialization.dumps(back) != data:
            viol.append((['dumps-not-stable'], f'{text!r}: dumps(loads(dumps(T))) != dumps(T)', {'src': text}))
    except Exception as e:  # noqa
        viol.append((['dumps-loads-raises', type(e).__name__], f'{text!r}: {type(e).__name__}: {e}', {'src': text}))
    try:
        buf = io.BytesIO()
        EntryStored(org).save(buf)
        buf.seek(0)
        restored = EntryStored.load(buf).entry
        d = entry_diff(org, restored, org.name)
        if d:
            viol.append((['stored-save-load', d[0], _tag(d[1])], f'{text!r}: field {d[0]} at {d[1]}: {d[2]!r} -> {d[3]!r}', {'src': text}))
    except Exception as e:  # noqa
        viol.append((['stored-raises', type(e).__name__], f'{text!r}: {type(e).__name__}: {e}', {'src': text}))
    return viol, count_entries(org)


SYN_VALUES = ['', 'a', '0', '\n', ' ', '"', "'", '\\', 'é', 'a"b\\n', 'None', 'x\ny', 'a\r\nb', '\r', '\t', '\x0c']


def synthetic_trees(max_entries: int):
    """Every lark tree with <= max_entries entries below the root whose leaves are tokens (values from SYN_VALUES, the
    empty text included), missing optionals (None) or childless rules; positions are filled in consistently."""
    import lark

    def tok(v, line, col):
        k = lark.Token('TK', v)
        k.line, k.column, k.end_line = line, col, line + v.count('\n')
        k.end_column = col + len(v) if '\n' not in v else len(v.split('\n')[-1]) + 1
        return k

    def tree(name, ch, line):
        m = lark.tree.Meta()
        m.line, m.column, m.end_line, m.end_column, m.empty = line, 1, line + 1, 5, False
        return lark.Tree(name, ch, m)

    def shapes(n):
        # forests with exactly n entries: each entry is a leaf slot 'L' or a rule with a sub-forest
        if n == 0:
            yield ()
            return
        for first in range(1, n + 1):
            for rest in shapes(n - first):
                if first == 1:
                    yield ('L',) + rest
                for sub in shapes(first - 1):
                    yield (sub,) + rest

    def fill(shape, leaves, counter):
        out = []
        for x in shape:
            if x == 'L':
                kind = leaves[counter[0]]
                counter[0] += 1
                line = counter[0]
                out.append(None if kind is None else (tree('childless', [], line) if kind == 'T' else tok(kind, line, 2)))
            else:
                out.append(tree('rule', fill(x, leaves, counter), counter[0] + 1))
        return out

    def n_leaves(shape):
        return sum(1 if x == 'L' else n_leaves(x) for x in shape)
    import itertools
    for n in range(1, max_entries + 1):
        for sh in shapes(n):
            k = n_leaves(sh)
            # one varying leaf over all values, the other leaves fixed: every position x every value
            for pos in range(max(k, 1)):
                for v in SYN_VALUES + [None, 'T']:
                    leaves = ['b'] * k
                    if k:
                        leaves[pos] = v
                    yield f'{sh!r} leaf#{pos}={v!r}', tree('root', fill(sh, leaves, [0]), 1)
                if not k:
                    break


def synthetic_layer():
    from rogw.tranp.implements.syntax.lark.entry import EntryOfLark, Serialization
    from rogw.tranp.implements.syntax.lark.parser import EntryStored
    viol, n = [], 0
    seen = set()
    for label, t in synthetic_trees(4):
        n += 1
        org = EntryOfLark(t)
        for how in ('dumps-loads', 'stored-save-load'):
            try:
                if how == 'dumps-loads':
                    back = EntryOfLark(Serialization.loads(json.loads(json.dumps(Serialization.dumps(t)))))
                else:
                    buf = io.BytesIO()
                    EntryStored(org).save(buf)
                    buf.seek(0)
                    back = EntryStored.load(buf).entry
                d = entry_diff(org, back, org.name)
            except Exception as e:  # noqa
                d = ('raises', type(e).__name__, '', str(e)[:80])
            if d:
                sig = ['synthetic', how, d[0], 'empty-text-token' if "=''" in label else ('missing-optional' if '=None' in label else 'token')]
                if tuple(sig) not in seen:
                    seen.add(tuple(sig))
                    viol.append((sig, f'hand-built tree {label}: field {d[0]} at {d[1]}: {d[2]!r} -> {d[3]!r}', {'synthetic': label}))
    return viol, n


def _tag(path: str) -> str:
    import re
    return re.sub(r'\[\d+\]', '', path.split('.')[-1])


def node_table(session, module_name):
    """{full path: (class, tokens, source map, id)} for every entry of the module's tree."""
    from rogw.tranp.syntax.ast.entrypoints import Entrypoints
    from rogw.tranp.syntax.ast.finder import ASTFinder
    ep = session.get(Entrypoints).load(module_name)
    nodes = ep._Node__nodes
    entries = nodes._Nodes__entries
    root = entries.by('file_input')
    table = {}
    for path in ASTFinder().full_pathfy(root).keys():
        try:
            n = nodes.by(path)
            sm = n.source_map
            table[path] = (type(n).__name__, n.tokens, (tuple(sm['begin']), tuple(sm['end'])), n.id)
        except Exception as e:  # noqa
            table[path] = ('raises', type(e).__name__)
    return table


def cache_path_roundtrip(task):
    """Real cache path: module files on disk, session A stores, session B must restore without parsing."""
    from mc.tranp.session import Session, ensure_workdir
    idx, texts = task
    wd = ensure_workdir()
    pkg = f'c15w{os.getpid()}'
    os.makedirs(os.path.join(wd, pkg), exist_ok=True)
    viol = []
    n_nodes = 0
    mod = f'{pkg}.b{idx}'
    src = ''.join((t if t.endswith('\n') else t + '\n') for t in texts)
    fp = os.path.join(wd, pkg, f'b{idx}.py')
    with open(fp, 'w') as f:
        f.write(src)
    try:
        a = Session({}, cache=True)
        ta = node_table(a, mod)
        cache_files = [p for p in os.listdir(os.path.join(wd, '.cache', 'tranp', pkg)) if p.startswith(f'b{idx}-')]
        if len(cache_files) != 1:
            viol.append((['cache-file-count', str(len(cache_files))], f'{mod}: expected one cache file, found {cache_files}', {'texts': texts}))
        # session B: any attempt to read the source again fails loudly -> proves the tree came from the cache
        from rogw.tranp.lang.module import to_fullyname
        from rogw.tranp.syntax.ast.parser import SourceProvider

        def poisoned():
            def provider(module_path: str) -> str:
                if module_path == mod:
                    raise RuntimeError('source was re-read although a cache entry exists')
                raise RuntimeError('unexpected module ' + module_path)
            return provider
        b = Session({}, cache=True, extra_defs={to_fullyname(SourceProvider): poisoned})
        tb = node_table(b, mod)
        n_nodes = len(ta)
        if ta.keys() != tb.keys():
            viol.append((['restored-paths-differ'], f'{mod}: {sorted(set(ta) ^ set(tb))[:5]}', {'texts': texts}))
        else:
            for p in ta:
                if ta[p] != tb[p]:
                    field = ['class', 'tokens', 'source_map', 'id'][[i for i in range(len(ta[p])) if i >= len(tb[p]) or ta[p][i] != tb[p][i]][0]] if ta[p][0] != 'raises' and tb[p][0] != 'raises' else 'raises'
                    viol.append((['restored-node-differs', field, _tag(p)], f'{mod} {p}: fresh {ta[p]!r} restored {tb[p]!r}', {'texts': texts}))
                    break
    except Exception as e:  # noqa
        viol.append((['cache-path-raises', type(e).__name__], f'{mod}: {type(e).__name__}: {e}', {'texts': texts}))
    finally:
        try:
            os.remove(fp)
        except OSError:
            pass
    return viol, n_nodes


def two_roots(task):
    """Two project directories served by one process: a module of the same dotted path and the same mtime exists in both,
    with different text. Whatever tree a session gets (parsed, or restored from that directory's own cache) must be the
    tree of the file in *its* directory. History: A, B, A again, B again (the later two restore from the caches)."""
    import shutil
    import tempfile
    from mc.core.runner import REPO
    from mc.tranp.session import Session, ensure_workdir
    idx, (src_a, src_b) = task
    root_a = ensure_workdir()
    root_b = tempfile.mkdtemp(prefix='tranp-verif-second-')
    pkg = f'c15t{os.getpid()}x{idx}'
    mod = f'{pkg}.m'
    viol = []
    try:
        os.symlink(os.path.join(REPO, 'data'), os.path.join(root_b, 'data'))
        # reference tables first, while the module exists in memory only (parsed on every request, no cache of any kind involved)
        want = {}
        for name, src in (('A', src_a), ('B', src_b)):
            want[name] = node_table(Session({mod: src}, cache=False), mod)
        for root, src in ((root_a, src_a), (root_b, src_b)):
            os.makedirs(os.path.join(root, pkg), exist_ok=True)
            fp = os.path.join(root, pkg, 'm.py')
            with open(fp, 'w') as f:
                f.write(src)
            os.utime(fp, (1700000000, 1700000000))
        for step, (name, root) in enumerate((('A', root_a), ('B', root_b), ('A', root_a), ('B', root_b))):
            got = node_table(Session({}, cache=True, root=(None if root == root_a else root)), mod)
            if got != want[name]:
                p = next((q for q in want[name] if got.get(q) != want[name][q]), None) or next(iter(set(got) - set(want[name])), '?')
                viol.append((['two-project-roots', 'tree-of-the-other-directory' if got == want['B' if name == 'A' else 'A'] else 'tree-differs', f'step={step}'],
                             f'session {step} in directory {name}: {p}: got {got.get(p)!r}, the file there gives {want[name].get(p)!r}', {'two_roots': [src_a, src_b]}))
                break
        if not viol:
            # the file in directory A is saved again with the other text within the same second (mtime + 0.5 s): the next
            # session must see the tree of the text that is in the file now
            fp = os.path.join(root_a, pkg, 'm.py')
            with open(fp, 'w') as f:
                f.write(src_b)
            os.utime(fp, (1700000000.5, 1700000000.5))
            got = node_table(Session({}, cache=True), mod)
            if got != want['B']:
                viol.append((['revision-within-one-second', 'tree-of-the-earlier-revision' if got == want['A'] else 'tree-differs'],
                             f'the module file was saved again 0.5 s after the cached revision: the session got {"the tree of the earlier revision" if got == want["A"] else "another tree"}', {'two_roots': [src_a, src_b]}))
    except Exception as e:  # noqa
        viol.append((['two-project-roots', 'raises', type(e).__name__], f'{type(e).__name__}: {e}', {'two_roots': [src_a, src_b]}))
    finally:
        os.chdir(root_a)
        shutil.rmtree(root_b, ignore_errors=True)
        shutil.rmtree(os.path.join(root_a, pkg), ignore_errors=True)
    return viol, 4


def two_grammars(_task):
    """One process serves the default grammar and a project whose config names its own grammar file (a copy in which the
    rule pass_stmt is called noop_stmt). Every tree - parsed, or restored from that project's cache by a later session - is
    built with the grammar of its own project: the tag names tell (an oracle independent of tranp)."""
    import shutil
    import tempfile
    from mc.core.runner import REPO
    from mc.tranp.session import Session, ensure_workdir
    from rogw.tranp.lang.module import to_fullyname
    from rogw.tranp.syntax.ast.finder import ASTFinder
    from rogw.tranp.syntax.ast.parser import ParserSetting, SyntaxParser
    root_a = ensure_workdir()
    root_b = tempfile.mkdtemp(prefix='tranp-verif-grammar-')
    pkg = f'c15g{os.getpid()}'
    mod = f'{pkg}.m'
    src = 'def f() -> None:\n\tpass\n'
    viol = []
    try:
        os.symlink(os.path.join(REPO, 'data'), os.path.join(root_b, 'data'))
        with open(os.path.join(REPO, 'data', 'grammar.lark')) as f:
            gtext = f.read()
        assert 'pass_stmt' in gtext
        os.makedirs(os.path.join(root_b, 'gram'))
        with open(os.path.join(root_b, 'gram', 'grammar.lark'), 'w') as f:
            f.write(gtext.replace('pass_stmt', 'noop_stmt'))
        for root in (root_a, root_b):
            os.makedirs(os.path.join(root, pkg), exist_ok=True)
            with open(os.path.join(root, pkg, 'm.py'), 'w') as f:
                f.write(src)
        custom = {to_fullyname(ParserSetting): lambda: ParserSetting(grammar='gram/grammar.lark')}
        for step, (name, root, defs, want, other) in enumerate((('default', None, None, 'pass_stmt', 'noop_stmt'), ('project', root_b, custom, 'noop_stmt', 'pass_stmt'),
                                                             ('project', root_b, custom, 'noop_stmt', 'pass_stmt'), ('default', None, None, 'pass_stmt', 'noop_stmt'))):
            sess = Session({}, cache=True, root=root, extra_defs=defs)
            tags = {p.split('.')[-1].split('[')[0] for p in ASTFinder().full_pathfy(sess.get(SyntaxParser)(mod)).keys()}
            if want not in tags or other in tags:
                viol.append((['two-grammars', f'{name}-grammar-session-got-{other}', f'step={step}'], f'session {step} ({name} grammar): the tree of "def f() -> None: pass" has the tags {sorted(t for t in tags if t.endswith("_stmt"))}, its grammar calls the rule {want}', {'two_grammars': True}))
                break
    except Exception as e:  # noqa
        viol.append((['two-grammars', 'raises', type(e).__name__], f'{type(e).__name__}: {str(e)[:200]}', {'two_grammars': True}))
    finally:
        os.chdir(root_a)
        shutil.rmtree(root_b, ignore_errors=True)
        shutil.rmtree(os.path.join(root_a, pkg), ignore_errors=True)
    return viol, 4


def tree_worker(batch):
    out = []
    for t in batch:
        out.append(tree_roundtrips(t))
    return out


def run(ctx):
    sents = corpus.sentence_corpus(ctx.quick)
    reals = corpus.real_modules()
    texts = sents + corpus.block_programs() + [src for _, _, src in reals]
    # the same programs saved with CRLF line ends (multi-line string tokens then hold \r\n)
    crlf_base = corpus.block_programs() + ['def f() -> str:\n\t"""doc\n\tmore\n\t"""\n\ts = """a\nb"""\n\treturn s\n', 'class C:\n\t"""one\n\ttwo"""\n\tx: int = 1\n']
    texts += [t.replace('\n', '\r\n') for t in crlf_base]
    ctx.log(f'{len(sents)} sentences, {len(reals)} real modules')
    results = pool.pmap(tree_worker, pool.chunked(texts, 300), workers=ctx.workers, init=_init_worker, rotate=ctx.seed)
    flat = [r for res in results for r in res]
    n = entries = rejected = 0
    accepted = []
    for t, (viol, cnt) in zip(texts, flat):
        if viol is None:
            rejected += 1
            continue
        n += 1
        entries += cnt
        accepted.append(t)
        ctx.merge(viol)
    # node level through the real cache path: sentences batched 60 per module, real modules one per module
    n_real = len(reals)
    sent_acc = [t for t in accepted if t in set(sents)] if False else [t for t in accepted[:len(accepted)]]
    real_texts = [src for _, _, src in reals]
    real_set = set(real_texts)
    small = [t for t in accepted if t not in real_set]
    batches = [(i, b) for i, b in enumerate(pool.chunked(small, 60))]
    batches += [(len(batches) + i, [t]) for i, t in enumerate(t for t in accepted if t in real_set)]
    res2 = pool.pmap(cache_path_roundtrip, batches, workers=ctx.workers, rotate=ctx.seed)
    nodes = 0
    for viol, cnt in res2:
        nodes += cnt
        ctx.merge(viol)
    # two project directories in one process: pairs of different programs at the same module path and mtime
    progs = corpus.block_programs()
    pairs = [(progs[i], progs[j]) for i in range(min(4, len(progs))) for j in range(min(4, len(progs))) if i != j][:(4 if ctx.quick else 12)]
    res3 = pool.pmap(two_roots, list(enumerate(pairs)), workers=ctx.workers, rotate=ctx.seed)
    n_two = 0
    for viol, cnt in res3:
        n_two += cnt
        ctx.merge(viol)
    for viol, cnt in pool.pmap(two_grammars, [0], workers=1):
        n_two += cnt
        ctx.merge(viol)
    sviol, n_syn = synthetic_layer()
    ctx.merge(sviol)
    return {
        'evaluations': n + len(batches) + n_syn,
        'synthetic_trees': n_syn,
        'distinct_nontrivial': n,
        'rule': 'every sentence of the enumerated corpus (expressions <= 2 operator applications, statement templates) and every real module (library stubs, example, fixtures) accepted by the working-tree grammar; each tree through dumps/json/loads, EntryStored.save/load and the on-disk cache path (store in one session, restore in a second whose source provider raises); non-trivial = tree accepted by lark (>= 3 entries); synthetic layer: every hand-built lark tree with <= 4 entries below the root (leaves: tokens, missing optionals, childless rules), every leaf position x token values {SYN_VALUES} (what a project grammar keeping layout tokens produces: tokens with empty text), through dumps/loads and EntryStored; two project directories served by one process (same module path and mtime, different text; sessions A, B, A, B): every session sees the tree of the file in its own directory; one process serving the default grammar and a project grammar (rule pass_stmt renamed): every tree carries the tags of its own grammar',
        'samples': accepted[:2] + accepted[len(accepted) // 2: len(accepted) // 2 + 2] + [m for m, _, _ in reals[:3]],
        'entries_compared': entries,
        'nodes_compared_through_cache': nodes,
        'cache_modules': len(batches),
        'two_root_sessions': n_two,
        'rejected_by_grammar': rejected,
        'exhaustive': True,
        'bound': 'corpus as stated',
    }


def replay(ctx, data):
    _init_worker()
    if 'synthetic' in data:
        ctx.merge(synthetic_layer()[0])
    elif 'two_grammars' in data:
        ctx.merge(two_grammars(0)[0])
    elif 'two_roots' in data:
        ctx.merge(two_roots((0, tuple(data['two_roots'])))[0])
    elif 'src' in data:
        viol, _ = tree_roundtrips(data['src'])
        ctx.merge(viol or [])
    else:
        viol, _ = cache_path_roundtrip((0, data['texts']))
        ctx.merge(viol)
