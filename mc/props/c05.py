"""C05 -- on-disk caches never change the result.

Engine E1: explicit-state BFS over workspace states (sources + cache directory + outputs). Operations:
edit(module, variant) under two mtime policies (content-bound: fixed mtime per (module, variant); monotone: every
edit gets a new larger mtime), run -f with the cache enabled, clear-cache, run -f with caching disabled.
Invariant on every reachable state: outputs(run -f with whatever cache is there) == outputs(run -f after
emptying the cache) -- or the warm run fails; and with caching disabled the cache directory is neither read nor
written. Crash-point layer: at reachable states with a cache, every cache file of a project module is truncated
at every offset (thorough) / selected offsets (quick) and the same comparison is made.
"""
import os
import shutil
import sys

from mc.core import pool, wsexplore
from mc.gen import wsgraphs
from mc.props.c06 import seed_library_cache
from mc.tranp.workspace import BASE_MTIME, Workspace, scratch_root

ID = 'C05'
LEVEL = 'model_checking'


def mtime_for(policy, graph, rel, variant, hist):
    if policy == 'content-bound':
        order = sorted(wsgraphs.GRAPHS[graph].keys())
        return BASE_MTIME + 1000 * (order.index(rel) + 1) + 10 * wsgraphs.variant_index(graph, rel, variant)
    n_edits = sum(1 for op in hist if op[0] == 'edit')
    if policy == 'recycled':
        # mtimes alternate between two values whatever the content is (files restored from an archive / a branch switch):
        # the third revision carries the mtime of the first
        return mtime_for('content-bound', graph, rel, 'v0', []) + (10 if n_edits % 2 == 0 else 0)
    if policy in ('grammar', 'symlink'):
        return BASE_MTIME + 100000 + 10 * (n_edits + 1)
    if policy == 'subsecond':
        # successive saves within one wall-clock second (the initial file sits at the start of that second)
        return mtime_for('content-bound', graph, rel, 'v0', []) + 0.125 * (n_edits + 1)
    return BASE_MTIME + 100000 + 10 * (n_edits + 1)


def init_state(graph, policy):
    def init(d):
        globs = wsgraphs.INPUT_GLOBS.get(graph, ['proj/*.py'])
        ws = Workspace.create(d, input_globs=tuple(globs), project_grammar=(policy == 'grammar'))
        ws.write_config(globs, ['out/'], cache_enabled=False, name='config_nocache.yml')
        seed_library_cache(ws)
        for rel, variants in wsgraphs.GRAPHS[graph].items():
            if policy == 'symlink' and rel == sorted(wsgraphs.GRAPHS[graph])[0]:
                # the module file is a symbolic link to a file kept elsewhere in the project
                os.makedirs(os.path.join(d, 'shared'), exist_ok=True)
                os.symlink(os.path.join('..', 'shared', os.path.basename(rel)), os.path.join(d, rel))
            ws.write_source(rel, variants['v0'], mtime_for('content-bound', graph, rel, 'v0', []))
        return ws
    return init


def ops_of(graph, policy='content-bound'):
    def f(hist):
        if policy == 'grammar':
            return [['run-f'], ['edit-grammar', 'g1'], ['edit-grammar', 'g0'], ['edit-grammar', 'g2'], ['edit-grammar', 'g3']]
        if policy == 'recycled':
            # a narrow alphabet so that depth 4 stays small: runs and edits of the base module only
            # (every revision is run before the next edit: an edit whose mtime equals that of a revision that is still
            # cached is an edit *without* mtime change, which the property does not cover)
            rel = sorted(wsgraphs.GRAPHS[graph])[0]
            return [['run-f']] + [['edit-run', rel, v] for v in wsgraphs.GRAPHS[graph][rel]]
        ops = [['run-f'], ['clear-cache'], ['run-f-nocache']]
        for rel, variants in wsgraphs.GRAPHS[graph].items():
            for v in variants:
                ops.append(['edit', rel, v])
        return ops
    return f


def nocache_run(ws):
    """run -f with caching disabled, watching the cache directory: returns (result, opened cache paths, listing changed)."""
    base = os.path.join(os.path.realpath(ws.root), '.cache')
    before = ws.cache_files()
    opened = []

    def hook(event, args):
        if event == 'open' and args and isinstance(args[0], str):
            p = os.path.realpath(args[0]) if not args[0].startswith('/') else args[0]
            if os.path.realpath(p).startswith(base):
                opened.append(os.path.relpath(os.path.realpath(p), ws.root))
    # the audit hook is installed in this (worker) process and is inherited by the forked CLI child; it reports through a file
    log = ws.root + '.audit'
    r = ws.run(force=True, config='config_nocache.yml', audit_log=log)
    if os.path.exists(log):
        with open(log) as f:
            opened = [l.strip() for l in f if l.strip()]
        os.remove(log)
    after = ws.cache_files()
    return r, opened, before != after, sorted(set(after) ^ set(before))


def apply_op(graph, policy):
    def apply(ws, op, hist):
        kind = op[0]
        if kind == 'run-f':
            r = ws.run(force=True)
            if r[0] != 'ok' and policy != 'grammar':   # (a grammar edit may make the sources unparsable: the state invariant judges that)
                return [(['run-fails', r[1], 'warm'], f'run -f failed: {r[1]}: {r[2]}')]
        elif kind == 'run-f-nocache':
            r, opened, changed, diff = nocache_run(ws)
            viol = []
            if r[0] != 'ok':
                viol.append((['run-fails', r[1], 'cache-disabled'], f'run -f with caching disabled failed: {r[1]}: {r[2]}'))
            if opened:
                kinds = sorted({('symbols' if '-symbols-' in p else 'parser' if 'parser.cache' in p else 'entry') for p in opened})
                viol.append((['cache-touched-while-disabled', 'open', '+'.join(kinds)], f'caching disabled but cache files were opened: {opened[:4]}'))
            if changed:
                kinds = sorted({('symbols' if '-symbols-' in p else 'parser' if 'parser.cache' in p else 'entry') for p in diff})
                viol.append((['cache-touched-while-disabled', 'listing', '+'.join(kinds)], f'caching disabled but the cache directory changed: {diff[:4]}'))
            return viol
        elif kind == 'clear-cache':
            clear_project_cache(ws)
        elif kind == 'edit':
            ws.write_source(op[1], wsgraphs.GRAPHS[graph][op[1]][op[2]], mtime_for(policy, graph, op[1], op[2], hist))
        elif kind == 'edit-grammar':
            # the project edits its own grammar file in place; the sources are not touched
            from mc.core.runner import REPO
            with open(os.path.join(REPO, 'data', 'grammar.lark')) as f:
                text = f.read()
            if op[1] == 'g1':    # one more augmented assignment operator (renumbers the anonymous terminals)
                text = text.replace('!aug_assign_op: "+="', '!aug_assign_op: "??=" | "+="')
            elif op[1] == 'g2':  # a comment only
                text = '// project grammar\n' + text
            elif op[1] == 'g3':  # a dialect in which functions are introduced by another keyword: the sources no longer parse
                assert '"def"' in text
                text = text.replace('"def"', '"defn"')
            gp = os.path.join(ws.root, 'gram', 'grammar.lark')
            with open(gp, 'w') as f:
                f.write(text)
            n = sum(1 for o in hist if o[0] == 'edit-grammar')
            os.utime(gp, (BASE_MTIME + 777 + 10 * (n + 1), BASE_MTIME + 777 + 10 * (n + 1)))
        elif kind == 'edit-run':
            n = sum(1 for o in hist if o[0] == 'edit-run')
            ws.write_source(op[1], wsgraphs.GRAPHS[graph][op[1]][op[2]], mtime_for('content-bound', graph, op[1], 'v0', []) + (10 if n % 2 == 0 else 0))
            r = ws.run(force=True)
            if r[0] != 'ok':
                return [(['run-fails', r[1], 'warm'], f'run -f failed: {r[1]}: {r[2]}')]
        return []
    return apply


def clear_project_cache(ws):
    """Remove the cache entries of the project modules. The parser and standard-library entries are the same files in
    every state (asserted by library_cache_digest) and are compared against a completely empty cache once per configuration."""
    shutil.rmtree(os.path.join(ws.root, '.cache', 'tranp', 'proj'), ignore_errors=True)


def library_cache_digest(ws):
    import hashlib
    h = hashlib.sha1()
    for rel in ws.cache_files():
        if '/proj/' in rel:
            continue
        with open(os.path.join(ws.root, rel), 'rb') as f:
            h.update(rel.encode() + b'\0' + hashlib.sha1(f.read()).digest())
    return h.hexdigest()


def compare_warm_cold(ws, graph, hist, label, full_clear=False):
    """outputs(run -f on a copy) vs outputs(run -f on a copy whose cache was emptied)."""
    viol = []
    a = ws.copy_to(ws.root + '.wa')
    b = ws.copy_to(ws.root + '.wb')
    try:
        if full_clear:
            b.clear_cache()
        else:
            clear_project_cache(b)
        ra, rb = a.run(True), b.run(True)
        if rb[0] != 'ok':
            if ra[0] == 'ok':
                # from an empty cache the run reports an error, with the cache files left behind it "succeeds"
                return [(['warm-succeeds-cold-fails', label, rb[1]], f'from an empty cache the run fails with {rb[1]}: {str(rb[2])[:120]}; with the cache it writes {sorted(a.outputs())}')]
            return []      # the sources themselves are not transpilable: nothing to compare
        if ra[0] != 'ok':
            return []      # the warm run fails: allowed ("rebuilds it or fails")
        oa, ob = a.outputs(), b.outputs()
        edits = [op[1] for op in hist if isinstance(op, list) and op[0] == 'edit']
        for rel in sorted(set(oa) | set(ob)):
            if oa.get(rel) != ob.get(rel):
                src = 'proj/' + os.path.basename(rel)[:-2] + '.py'
                found = {wsgraphs.relation(graph, e, src) for e in edits}
                rel_kind = 'transitive' if 'transitive' in found else ('direct' if 'direct' in found else ('self' if 'self' in found else 'none'))
                la = [(x or '').split('\n') for x in (oa.get(rel), ob.get(rel))]
                i = next((k for k in range(min(len(la[0]), len(la[1]))) if la[0][k] != la[1][k]), 0)
                viol.append((['warm-differs-from-cold', label, f'edited-dependency={rel_kind}'], f'{rel}: with the cache {la[0][i] if i < len(la[0]) else ""!r}, from an empty cache {la[1][i] if i < len(la[1]) else ""!r}'))
    finally:
        a.remove()
        b.remove()
    return viol


_lib = {}


def check_state(graph):
    def check(ws, hist):
        viol = []
        if not hist:
            # once per configuration: the seeded parser / library entries against a completely empty cache directory
            viol += compare_warm_cold(ws, graph, hist, 'initial-vs-empty-cache-dir', full_clear=True)
        dig = library_cache_digest(ws)
        if not _lib.get('project_grammar') and _lib.setdefault('digest', dig) != dig and any('rogw' in c for c in ws.cache_files()):
            viol.append((['library-cache-changed'], 'a parser / library cache entry differs from the one of the initial state'))
        return viol + compare_warm_cold(ws, graph, hist, 'state')
    return check


# ------------------------------------------------------------------------------------------- crash points

def truncation_task(task):
    state_dir, graph, hist, rel, offsets = task
    ws = Workspace(state_dir)
    viol = []
    n = 0
    path = os.path.join(ws.root, rel)
    with open(path, 'rb') as f:
        data = f.read()
    kind = 'symbols' if '-symbols-' in rel else ('parser' if 'parser.cache' in rel else 'entry')
    # reference: outputs from an empty cache
    cold = ws.copy_to(ws.root + f'.tc{os.getpid()}')
    try:
        clear_project_cache(cold)
        rc = cold.run(True)
        ref = cold.outputs() if rc[0] == 'ok' else None
    finally:
        cold.remove()
    if ref is None:
        return 0, []
    # only states whose intact cache is consistent are judged here (an inconsistent one is reported by the state invariant)
    warm = ws.copy_to(ws.root + f'.tw{os.getpid()}')
    try:
        rw = warm.run(True)
        consistent = rw[0] == 'ok' and warm.outputs() == ref
    finally:
        warm.remove()
    if not consistent:
        return 0, []
    for k in offsets:
        if k >= len(data):
            continue
        n += 1
        t = ws.copy_to(ws.root + f'.tt{os.getpid()}')
        try:
            with open(os.path.join(t.root, rel), 'wb') as f:
                f.write(data[:k])
            r = t.run(True)
            if r[0] == 'ok' and t.outputs() != ref:
                viol.append((['truncated-cache-changes-output', kind], f'{rel} truncated to {k} of {len(data)} bytes: the run succeeds with different output'))
            elif r[0] != 'ok' and not _is_app_error(r[1]):
                # failing is allowed by C05; which exception escapes is C07's business (recorded, not judged here)
                pass
        finally:
            t.remove()
    return n, viol


def _is_app_error(name: str) -> bool:
    from rogw.tranp.errors import Errors
    return hasattr(Errors, name)


def truncation_layer(ctx, state_dirs, graph, every_offset: bool):
    tasks = []
    for sd, hist in state_dirs:
        ws = Workspace(sd)
        for rel in ws.cache_files():
            is_project = '/proj/' in rel
            size = os.path.getsize(os.path.join(sd, rel))
            if is_project:
                offsets = list(range(size)) if every_offset else sorted({0, 1, size // 2, size - 1})
            elif 'parser.cache' in rel:
                offsets = [0, size // 2] if not every_offset else sorted(set(list(range(0, 16)) + [int(size * i / 32) for i in range(32)] + list(range(size - 16, size))))
            else:
                if not every_offset:
                    continue
                offsets = sorted(set(list(range(0, 8)) + [int(size * i / 16) for i in range(16)] + list(range(size - 8, size))))
            for chunk in pool.chunked(offsets, 40):
                tasks.append((sd, graph, hist, rel, chunk))
    res = pool.pmap(truncation_task, tasks, workers=ctx.workers, rotate=ctx.seed)
    n = 0
    viols = []
    for (sd, g, hist, rel, _), (k, v) in zip(tasks, res):
        n += k
        viols += [(x, hist) for x in v]
    return n, viols


def inproc_task(task):
    """Runs within one process (a driver script, a watch loop or a test harness calling the entry point again and again):
    run -f / edit / run -f / ..., each run a new App with the cache enabled, all in one interpreter. The outputs after
    the last run must equal those of a run from an empty cache in a fresh process."""
    import itertools  # noqa
    import json
    import rogw.tranp.bin.transpile as cli
    graph, edits = task
    root = scratch_root('c05-inproc-')
    r, w = os.pipe()
    pid = os.fork()
    if pid == 0:
        code = 0
        try:
            os.close(r)
            devnull = os.open(os.devnull, os.O_WRONLY)
            os.dup2(devnull, 1)
            os.dup2(devnull, 2)
            ws = init_state(graph, 'content-bound')(os.path.join(root, 'ws'))
            os.chdir(ws.root)
            out = {'error': None}
            try:
                cli.App(cli.TranspileApp.definitions(cli.Args(['-c', 'config.yml', '-f']))).run(cli.TranspileApp.run)
                for k, (rel, variant) in enumerate(edits):
                    ws.write_source(rel, wsgraphs.GRAPHS[graph][rel][variant], BASE_MTIME + 5000 + 10 * k)
                    cli.App(cli.TranspileApp.definitions(cli.Args(['-c', 'config.yml', '-f']))).run(cli.TranspileApp.run)
            except BaseException as e:  # noqa
                out['error'] = f'{type(e).__name__}: {str(e)[:200]}'
            os.write(w, json.dumps(out).encode())
        except BaseException:  # noqa
            code = 3
        finally:
            os._exit(code)
    os.close(w)
    data = b''
    while True:
        chunk = os.read(r, 65536)
        if not chunk:
            break
        data += chunk
    os.close(r)
    os.waitpid(pid, 0)
    viol = []
    try:
        if not data:
            return [(['in-process-runs', 'harness-child-died'], f'{edits}')]
        ws = Workspace(os.path.join(root, 'ws'))
        mine = ws.outputs()
        err = json.loads(data.decode())['error']
        cold = ws.copy_to(ws.root + '.cold')
        cold.clear_cache()
        for rel in list(cold.outputs()):
            os.remove(os.path.join(cold.root, rel))
        res = cold.run(force=True)
        ref = cold.outputs()
        if err and res[0] == 'ok':
            viol.append((['in-process-runs', 'fails-only-with-history'], f'a run in the process failed ({err}); the same sources from an empty cache in a fresh process succeed'))
        elif not err and res[0] == 'ok':
            for rel in sorted(set(mine) | set(ref)):
                if mine.get(rel) != ref.get(rel):
                    a, b = (mine.get(rel) or '').split('\n'), (ref.get(rel) or '').split('\n')
                    i = next((j for j in range(min(len(a), len(b))) if a[j] != b[j]), 0)
                    viol.append((['in-process-runs', 'warm-differs-from-cold'], f'{rel}: after the runs in one process {a[i] if i < len(a) else ""!r}, from an empty cache in a fresh process {b[i] if i < len(b) else ""!r}'))
                    break
    finally:
        shutil.rmtree(root, ignore_errors=True)
    return viol


def inproc_layer(ctx):
    import itertools
    graph = 'pair'
    alphabet = [(rel, v) for rel, variants in wsgraphs.GRAPHS[graph].items() for v in variants]
    seqs = []
    for n in (1, 2) if ctx.quick else (1, 2, 3):
        for seq in itertools.product(alphabet, repeat=n):
            if all(seq[i] != seq[i + 1] for i in range(len(seq) - 1)):
                seqs.append(list(seq))
    res = pool.pmap(inproc_task, [(graph, sq) for sq in seqs], workers=ctx.workers)
    viols = []
    for sq, v in zip(seqs, res):
        viols += [((sig, what), sq) for sig, what in v]
    return len(seqs), viols


def run(ctx):
    import rogw.tranp.bin.transpile  # noqa
    configs = [('pair', 'content-bound'), ('chain3', 'content-bound'), ('prefix3', 'monotone'), ('pair', 'subsecond'), ('pair', 'recycled'), ('pair', 'grammar'), ('pair', 'symlink'), ('swap3', 'content-bound'), ('crlf2', 'content-bound')] if ctx.quick else \
        [('pair', 'content-bound'), ('pair', 'monotone'), ('chain3', 'content-bound'), ('chain3', 'monotone'), ('chain3p', 'monotone'), ('prefix3', 'monotone'), ('diamond4', 'content-bound'), ('pair', 'subsecond'), ('chain3', 'subsecond'), ('pair', 'recycled'), ('pair', 'grammar'), ('chain3', 'symlink'), ('swap3', 'content-bound'), ('crlf2', 'content-bound')]
    total = {'states': 0, 'transitions': 0, 'truncations': 0}
    per = {}
    for graph, policy in configs:
        # the 'recycled' policy lives in a directory whose name holds glob metacharacters (purging old revisions must still work there)
        root = scratch_root('c05-[1]x-' if policy == 'recycled' else 'c05-')
        # thorough: the two-module graph is explored one level deeper than the larger ones (a full thorough run stays near an hour)
        deep = graph == 'pair'
        depth = (3 if ctx.quick else (5 if deep else 4)) if policy == 'content-bound' else (4 if policy == 'recycled' else (3 if policy == 'grammar' else (2 if ctx.quick or not deep else 3)))
        _lib.clear()
        _lib['project_grammar'] = policy == 'grammar'   # (a project grammar rebuilds parser and library entries: no fixed digest)
        try:
            stats, viols = wsexplore.explore(ctx, root, init_state(graph, policy), ops_of(graph, policy), apply_op(graph, policy), check_state(graph), depth, label=f'{graph}/{policy}')
            # crash points on a few representative reachable states that hold project cache files
            sdirs = []
            for name in sorted(os.listdir(os.path.join(root, 'states')), key=lambda s: int(s[1:])):
                sd = os.path.join(root, 'states', name)
                if any('/proj/' in c for c in Workspace(sd).cache_files()):
                    sdirs.append((sd, [name]))
            picks = sdirs[:1] + sdirs[len(sdirs) // 2: len(sdirs) // 2 + 1] if ctx.quick else sdirs[:2] + sdirs[len(sdirs) // 2: len(sdirs) // 2 + 2] + sdirs[-2:]
            if policy == 'content-bound':
                nt, tv = truncation_layer(ctx, picks, graph, not ctx.quick)
                total['truncations'] += nt
                viols += tv
        finally:
            shutil.rmtree(root, ignore_errors=True)
        total['states'] += stats['states']
        total['transitions'] += stats['transitions']
        per[f'{graph}/{policy}'] = stats
        for (sig, what), hist in viols:
            ctx.violation(sig, f'{graph}/{policy} after {hist}: {what}', {'graph': graph, 'policy': policy, 'history': hist})
    n_inproc, iviols = inproc_layer(ctx)
    for (sig, what), sq in iviols:
        ctx.violation(sig, f'pair, forced runs in one process after the edits {sq}: {what}', {'graph': 'pair', 'inproc_edits': sq})
    return {
        'states': total['states'],
        'transitions': total['transitions'] + total['truncations'],
        'traces_validated_against_impl': total['transitions'] + total['truncations'],
        'samples': [{'graph': 'chain3', 'policy': 'content-bound', 'history': [['run-f'], ['edit', 'proj/a.py', 'vT'], ['run-f']]}, {'graph': 'pair', 'history': [['run-f-nocache']]}],
        'per_configuration': per,
        'truncation_runs': total['truncations'],
        'in_process_histories': n_inproc,
        'bound': f'BFS depth <= {3 if ctx.quick else "5 (pair) / 4 (larger graphs)"} (content-bound mtimes) / <= {2 if ctx.quick else "3 (pair) / 2"} (monotone, sub-second, symlink) / 4 (recycled) / 3 (grammar) with exact state dedup over {configs}; invariant (warm vs cold forced run) on every reachable state; truncation of project cache files at {"every offset" if not ctx.quick else "offsets 0, 1, n/2, n-1"} on representative reachable states; in-process layer: {n_inproc} histories run -f / edit / run -f ... over the pair graph with every run a new App in one interpreter, outputs equal to a run from an empty cache in a fresh process',
        'exhaustive': True,
    }


def replay(ctx, data):
    import rogw.tranp.bin.transpile  # noqa
    if 'inproc_edits' in data:
        for sig, what in inproc_task((data['graph'], [tuple(e) for e in data['inproc_edits']])):
            ctx.violation(sig, what, data)
        return
    graph, policy = data['graph'], data.get('policy', 'content-bound')
    root = scratch_root('c05r-[1]x-' if policy == 'recycled' else 'c05r-')
    try:
        ws = init_state(graph, policy)(os.path.join(root, 's'))
        apply = apply_op(graph, policy)
        hist = []
        for op in data['history']:
            if not isinstance(op, list):
                continue
            for sig, what in apply(ws, op, hist):
                ctx.violation(sig, what, data)
            hist.append(op)
        for sig, what in check_state(graph)(ws, hist):
            ctx.violation(sig, what, data)
    finally:
        shutil.rmtree(root, ignore_errors=True)
