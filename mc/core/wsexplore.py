"""Explicit-state BFS over workspace directories (exact state = digest of every file + assigned source mtimes).

explore(root, init, ops_of, apply, check, depth, ...):
  init(dir) -> Workspace                      builds the initial state in dir
  ops_of(history) -> list of ops                    (ops are JSON-able tuples)
  apply(ws, op, history) -> list of violations      mutates ws in place (a copy made by the explorer)
  check(ws, history) -> list of violations          invariant evaluated once per *new* state (on copies it makes itself)
Level-synchronous; transitions of one level run in the worker pool. Violating transitions are reported and
not expanded. Returns stats dict.
"""
import os
import shutil

from mc.core import pool
from mc.tranp.workspace import Workspace

_cfg = {}


def _transition(task):
    state_dir, op, hist, tmp_root, k = task
    dst = os.path.join(tmp_root, f't{os.getpid()}_{k}')
    ws = Workspace(state_dir).copy_to(dst)
    viol = _cfg['apply'](ws, op, hist)
    return dst, ws.digest(), viol


def _check(task):
    state_dir, hist = task
    return _cfg['check'](Workspace(state_dir), hist)


def explore(ctx, root: str, init, ops_of, apply, check, depth: int, state_cap: int = 100000, label: str = ''):
    _cfg['apply'] = apply
    _cfg['check'] = check
    states_dir = os.path.join(root, 'states')
    tmp_root = os.path.join(root, 'tmp')
    os.makedirs(states_dir)
    os.makedirs(tmp_root)
    ws0 = init(os.path.join(states_dir, 's0'))
    seen = {ws0.digest(): (ws0.root, [])}
    frontier = [(ws0.root, [])]
    viols = []
    stats = {'states': 1, 'transitions': 0, 'max_depth': 0, 'fixpoint': False, 'violating_transitions': 0, 'capped': False}
    viols += [(v, []) for v in pool.pmap(_check, [(ws0.root, [])], workers=1)[0]]
    d = 0
    while frontier and d < depth:
        tasks = []
        for sdir, hist in frontier:
            for op in ops_of(hist):
                tasks.append((sdir, op, hist, tmp_root, len(tasks)))
        results = pool.pmap(_transition, tasks, workers=ctx.workers, rotate=ctx.seed)
        nxt = []
        for (sdir, op, hist, _, _), (dst, dig, viol) in zip(tasks, results):
            stats['transitions'] += 1
            h2 = hist + [op]
            if viol:
                stats['violating_transitions'] += 1
                viols += [(v, h2) for v in viol]
                shutil.rmtree(dst, ignore_errors=True)
                continue
            if dig in seen or len(seen) >= state_cap:
                if dig not in seen:
                    stats['capped'] = True
                shutil.rmtree(dst, ignore_errors=True)
                continue
            final = os.path.join(states_dir, f's{len(seen)}')
            os.rename(dst, final)
            seen[dig] = (final, h2)
            nxt.append((final, h2))
        # invariant on every new state
        cres = pool.pmap(_check, [(sd, h) for sd, h in nxt], workers=ctx.workers, rotate=ctx.seed)
        for (sd, h), vs in zip(nxt, cres):
            viols += [(v, h) for v in vs]
        frontier = nxt
        d += 1
        stats['states'] = len(seen)
        stats['max_depth'] = d
        ctx.log(f'{label} depth {d}: states={len(seen)} frontier={len(frontier)} transitions={stats["transitions"]}')
    stats['fixpoint'] = not frontier
    return stats, viols
