"""Universe of symbols and factories for the C19 exploration (importable by dotted name: lazy registrations)."""
from typing import Generic, TypeVar

T = TypeVar('T')

_serial = [0]
_log: list = []


def reset() -> None:
    _serial[0] = 0
    _log.clear()


def _next() -> int:
    _serial[0] += 1
    return _serial[0]


from c19top import Inst, OuterA   # noqa: E402  (A lives in a top-level module, B in this packaged one)

Inst.serial_source = staticmethod(_next)
Inst.log = _log


class OuterB:
    class Item(Inst):
        """Falsy by __bool__."""
        def __bool__(self) -> bool:
            return False


# A and B are nested classes that share their simple name (__name__ == 'Item'; only __qualname__ tells them apart),
# and their instances are falsy: identity must not go by simple name, presence must not go by truthiness
A = OuterA.Item
B = OuterB.Item


class G(Inst, Generic[T]):
    pass


def mkA1() -> A:
    return A('mkA1')


def mkA2() -> A:
    return A('mkA2')


def mkB(a: A) -> B:
    return B('mkB', a)


def mkBn(a: A, n: int) -> B:
    return B('mkBn', a, n)


def mkNA(n: int, a: A) -> B:
    # a resolvable parameter *after* an unresolvable one: must not be filled from the container
    return B('mkNA', n, a)


class B2(B):
    def __init__(self, a: A, n: int) -> None:
        super().__init__('B2', a, n)


def mkG() -> 'G[int]':
    return G('mkG')


def mkGa(a: A) -> 'G[int]':
    return G('mkGa', a)


class CallableFactory:
    """A callable object used as factory: annotations come from __call__."""
    def __call__(self, b: B) -> A:
        return A('callobj', b)


callobj = CallableFactory()


def _make_closure(kind: str):
    # two distinct closures sharing __module__ and __qualname__, differing in their annotations
    if kind == 'a':
        def closure(a: A) -> B:
            return B('closure_a', a)
        return closure
    else:
        def closure(n: int) -> B:
            return B('closure_n', n)
        return closure


closure_a = _make_closure('a')
closure_n = _make_closure('n')

SYMBOLS = {'A': A, 'B': B, 'G': G, 'G[int]': G[int], 'G[str]': G[str]}
FACTORIES = {
    'mkA1': mkA1, 'mkA2': mkA2, 'mkB': mkB, 'mkBn': mkBn, 'mkNA': mkNA, 'B2': B2, 'mkG': mkG, 'mkGa': mkGa,
    'callobj': callobj, 'closure_a': closure_a, 'closure_n': closure_n,
}
# reference knowledge about each factory: (ordered annotated parameter symbols, constructor of the result descriptor)
PARAMS = {
    'mkA1': [], 'mkA2': [], 'mkB': ['A'], 'mkBn': ['A', 'int'], 'mkNA': ['int', 'A'], 'B2': ['A', 'int'], 'mkG': [], 'mkGa': ['A'],
    'callobj': ['B'], 'closure_a': ['A'], 'closure_n': ['int'],
}
PATH = 'mc.props.c19_universe'
