"""C13 -- tokenizer agrees with Python and ignores insignificant layout.

Engine E2: complete enumeration of (a) flat token sequences over every supported operator with both
adjacency modes, (b) block structures (all indentation patterns up to n lines) rendered with every indent
unit, (c) every single layout rewrite of those. Oracle: CPython's tokenize on the same text + metamorphic
equality of the significant token sequence + raw-token concatenation / source-map slicing laws.
"""
import io
import itertools
import re
import tokenize

from mc.core import pool

ID = 'C13'
LEVEL = 'exploration'

NAMES = ['a', 'bc']
NUMBERS = ['1', '2.5']
STRINGS_Q = ["'s'", '"t"']
STRINGS_T = ["'s'", '"t"', "r'u'", '"""v"""', '"a b"', "'#'", '"x\\"y"', "'it\\'s'", '""', "r'\\d'", '"""m\nn"""', "'a\\\\'", '"\\\\"', "r'\\\\'", '"""a\\""""', '"""\\""""', '"""a\\"b"""', '"""a""b"""']
STRINGS_ESC_Q = ["'a\\\\'", '"x\\"y"', '"\\\\"', '"""a\\""""', '"""\\""""']
PY_OPS = None   # computed from TokenDefinition ∩ Python


def supported_ops():
    from rogw.tranp.implements.syntax.tranp.token import TokenDefinition
    d = TokenDefinition()
    py_single = set('@.,:;(){}[]=-+*/%&|^~<>')
    py_combined = {'-=', '+=', '*=', '/=', '%=', '&=', '|=', '^=', '==', '!=', '<=', '>=', '<<', '>>', '->', '**', ':=', '...'}
    singles = [c for c in d.symbol if c in py_single]
    combined = [c for c in d.combined_symbols if c in py_combined]
    outside = sorted((set(d.symbol) - py_single) | (set(d.combined_symbols) - py_combined))
    return singles, combined, outside


# --------------------------------------------------------------------------- token stream mappings

def py_tokens(src: str):
    """CPython significant tokens, or None when CPython rejects the text / text is outside the subset."""
    out = []
    try:
        toks = list(tokenize.generate_tokens(io.StringIO(src).readline))
    except (tokenize.TokenError, IndentationError, SyntaxError):
        return None
    fbuf = None
    for t in toks:
        name = tokenize.tok_name[t.type]
        if name in ('NL', 'COMMENT', 'ENDMARKER'):
            continue
        if name == 'FSTRING_START':
            fbuf = t.string
            continue
        if fbuf is not None:
            fbuf += t.string
            if name == 'FSTRING_END':
                out.append(('STRING', fbuf))
                fbuf = None
            continue
        if name in ('NEWLINE', 'INDENT', 'DEDENT'):
            out.append((name,))
        elif name in ('OP', 'NAME', 'NUMBER', 'STRING'):
            out.append((name, t.string))
        else:
            return None
    return out


NON_PY_COMBINED = None


def in_subset(ptoks, ops, src=None) -> bool:
    # adjacent CPython tokens that tranp's definition would fuse into one of its non-Python combined symbols (&&, ||, ~=)
    # and numbers glued to a dot (2.5. / .5: the number class is a plain character class) are outside the subset
    for a, b in zip(ptoks, ptoks[1:]):
        if a[0] == 'OP' and b[0] == 'OP' and (a[1] + b[1]) in ('&&', '||', '~=') :
            return False
        if a[0] == 'OP' and b[0] == 'OP' and any((a[1] + b[1]).startswith(x) or (a[1] + b[1]).endswith(x) for x in ('&&', '||', '~=')) and len(a[1] + b[1]) <= 3:
            return False
        if {a[0], b[0]} == {'NUMBER', 'OP'} and '.' in (a[1] if a[0] == 'OP' else b[1]):
            return False
    for t in ptoks:
        if t[0] == 'OP' and t[1] not in ops:
            return False
        if t[0] == 'NUMBER' and not re.fullmatch(r'\d+(\.\d+)?', t[1]):
            return False
        if t[0] == 'STRING' and not re.match(r'^(r|f)?("""|\'|")', t[1]):
            return False
        if t[0] == 'STRING' and t[1].startswith(("'''", "r'''", "f'''")):
            return False
    return True


def tr_tokens(tokens):
    from rogw.tranp.implements.syntax.tranp.token import SpecialSymbols, TokenDomains, TokenTypes
    out = []
    for t in tokens:
        if t.type == TokenTypes.NewLine:
            out.append(('NEWLINE',))
        elif t.type == TokenTypes.Indent:
            out.append(('INDENT',))
        elif t.type == TokenTypes.Dedent:
            out.append(('DEDENT',))
        elif t.type in (TokenTypes.String,):
            out.append(('STRING', t.string))
        elif t.type in (TokenTypes.Digit, TokenTypes.Decimal):
            out.append(('NUMBER', t.string))
        elif t.type == TokenTypes.Name:
            out.append(('NAME', t.string))
        elif t.domain == TokenDomains.Symbol:
            out.append(('OP', '-' if t.string == SpecialSymbols.OpUnaryMinus.value else t.string))
        else:
            out.append((t.type.name, t.string))
    return out


def slice_by_map(src: str, sm) -> str:
    lines = src.split('\n')
    starts = [0]
    for ln in lines[:-1]:
        starts.append(starts[-1] + len(ln) + 1)
    if sm.begin_line >= len(starts) or sm.end_line >= len(starts):
        return '<out of range>'
    return src[starts[sm.begin_line] + sm.begin_column: starts[sm.end_line] + sm.end_column]


def token_kind(text: str) -> str:
    if text and text[0] in '"\'' or re.match(r'^[rf]["\']', text):
        return 'string'
    if text[0].isdigit():
        return 'number'
    if text[0].isalpha() or text[0] == '_':
        return 'name'
    return f'op:{text}'


# --------------------------------------------------------------------------- judging one source

def judge(src: str, ops, lexer, tokenizer, meta) -> list:
    """Returns list of (signature, what). meta: dict describing how src was built (for signatures)."""
    from rogw.tranp.errors import Errors
    out = []
    ptoks = py_tokens(src)
    if ptoks is None or not ptoks or not in_subset(ptoks, ops):
        return [('skip',)]
    # P2: raw lexer tokens
    try:
        raw = lexer.parse_impl(src)
        from rogw.tranp.implements.syntax.tranp.token import SpecialSymbols
        marker = SpecialSymbols.OpUnaryMinus.value
        # the unary-minus marker is a type annotation of the '-' token, not text (DESIGN C13)
        cat = ''.join('-' if t.string == marker else t.string for t in raw)
        if cat != src:
            out.append((['raw-concat'] + meta['sig'], f'concatenated raw tokens differ from the source: {src!r} -> {cat!r}'))
        else:
            for t in raw:
                got = slice_by_map(src, t.source_map)
                if got != ('-' if t.string == marker else t.string):
                    out.append((['source-map', token_kind(t.string) if t.string.strip() else 'whitespace'] + meta['sig'], f'{src!r}: token {t.string!r} map {tuple(t.source_map)} addresses {got!r}'))
                    break
        # the very same str object lexed again (a tool that tokenizes a file twice): same tokens, same spans
        raw2 = lexer.parse_impl(src)
        if [(t.string, tuple(t.source_map)) for t in raw2] != [(t.string, tuple(t.source_map)) for t in raw]:
            i = next((j for j in range(min(len(raw), len(raw2))) if (raw[j].string, tuple(raw[j].source_map)) != (raw2[j].string, tuple(raw2[j].source_map))), min(len(raw), len(raw2)))
            out.append((['second-pass-differs'] + meta['sig'], f'{src!r}: lexed a second time, token #{i} is {(raw2[i].string, tuple(raw2[i].source_map)) if i < len(raw2) else None!r}, the first pass gave {(raw[i].string, tuple(raw[i].source_map)) if i < len(raw) else None!r}'))
    except BaseException as e:  # noqa
        out.append((['raw-raises', type(e).__name__] + meta['sig'], f'Lexer.parse_impl({src!r}) raised {type(e).__name__}: {e}'))
        return out
    # P1: significant tokens equal CPython's
    try:
        ttoks = tokenizer.parse(src)
    except BaseException as e:  # noqa
        out.append((['parse-raises', type(e).__name__] + meta['sig'], f'Tokenizer.parse({src!r}) raised {type(e).__name__}: {e}'))
        return out
    tt = tr_tokens(ttoks)
    if tt != ptoks:
        # classify the first difference
        i = 0
        while i < min(len(tt), len(ptoks)) and tt[i] == ptoks[i]:
            i += 1
        exp = ptoks[i] if i < len(ptoks) else ('<end>',)
        got = tt[i] if i < len(tt) else ('<end>',)
        def k(t):
            return t[0] if len(t) == 1 or t[0] in ('NEWLINE', 'INDENT', 'DEDENT') else (t[0] + ':' + (t[1] if t[0] == 'OP' else token_kind(t[1])))
        out.append((['differs-from-cpython', f'expected={k(exp)}', f'got={k(got)}'] + meta['sig'], f'{src!r}: cpython {ptoks} tranp {tt}'))
    # balance
    ni = sum(1 for t in tt if t == ('INDENT',))
    nd = sum(1 for t in tt if t == ('DEDENT',))
    if ni != nd:
        out.append((['unbalanced-indent'] + meta['sig'], f'{src!r}: {ni} INDENT vs {nd} DEDENT'))
    return out or [('ok', tuple((t.type.value, t.string) for t in ttoks), tuple(ptoks))]


# --------------------------------------------------------------------------- layer A: flat sequences

def flat_sources(quick: bool, singles, combined):
    ops = singles + combined
    operands = NAMES[:1] + NUMBERS + STRINGS_Q[:1] if quick else NAMES + NUMBERS + STRINGS_Q
    alpha = operands + ops
    n = 3
    seps = ['', ' ']
    # all sequences of length <= 3 over the whole alphabet with every separator assignment
    for ln in range(1, n + 1):
        for seq in itertools.product(alpha, repeat=ln):
            for sp in itertools.product(seps, repeat=ln - 1):
                yield ''.join(t + (sp[i] if i < ln - 1 else '') for i, t in enumerate(seq)), ['flat', f'len={ln}']
    if not quick:
        # length 4: operand op op operand and op op op op families (where longest-match and unary minus act)
        for a, o1, o2, b in itertools.product(operands, ops, ops, operands):
            for sp in itertools.product(seps, repeat=3):
                yield f'{a}{sp[0]}{o1}{sp[1]}{o2}{sp[2]}{b}', ['flat', 'len=4']
        for seq in itertools.product(singles, repeat=4):
            yield ''.join(seq), ['flat', 'len=4-singles']


# --------------------------------------------------------------------------- layer B: block structures

def depth_patterns(n: int, max_depth: int):
    """All sequences d_0..d_{n-1}: d_0=0, d_{i+1} <= d_i+1."""
    def rec(prefix):
        if len(prefix) == n:
            yield tuple(prefix)
            return
        for d in range(0, min(prefix[-1] + 1, max_depth) + 1):
            yield from rec(prefix + [d])
    yield from rec([0])


LINE_BODIES = ['a = 1', 'b(c, 2)', 'x = [1,\n2]', 'y = -1', 's = "q # r"', 'f(a)[\n0\n]']


def block_program(depths, body_pick):
    """Structured program: list of (depth, text). A line followed by a deeper line becomes a header."""
    lines = []
    for i, d in enumerate(depths):
        is_header = i + 1 < len(depths) and depths[i + 1] > d
        if is_header:
            lines.append((d, ['if a:', 'while b:', 'def f(x):', 'else:', 'for i in c:'][(i + body_pick) % 5]))
        else:
            lines.append((d, LINE_BODIES[(i + body_pick) % len(LINE_BODIES)]))
    return lines


def render(lines, unit: str, rewrites=(), final_newline=True) -> str:
    """rewrites: tuple of (kind, position[, arg])."""
    out = []
    rw = {}
    for r in rewrites:
        rw.setdefault(r[1], []).append(r)
    for i, (d, text) in enumerate(lines):
        for r in rw.get(i, []):
            if r[0] == 'comment-line':
                out.append(unit * r[2] + (r[3] if len(r) > 3 else '# c'))
            elif r[0] == 'blank':
                out.append('')
            elif r[0] == 'ws-line':
                out.append(unit * r[2] + ' ' if unit != '\t' else unit * r[2])
        # continuation lines inside brackets keep arbitrary indentation
        t = text.replace('\n', '\n' + unit * d + '  ')
        for r in rw.get(i, []):
            if r[0] == 'eol-comment':
                first, *rest = t.split('\n')
                ctext = r[2] if len(r) > 2 else ' # c'
                t = '\n'.join([first + ctext] + rest)
            elif r[0] == 'trailing-space':
                t = t + '  '
            elif r[0] == 'trailing-tab':
                t = t + '\t'
            elif r[0] == 'bracket-comment' and '\n' in t:
                first, *rest = t.split('\n')
                t = '\n'.join([first, unit * d + (r[2] if len(r) > 2 else '# c')] + rest)
            elif r[0] == 'bracket-blank' and '\n' in t:
                first, *rest = t.split('\n')
                t = '\n'.join([first, ''] + rest)
        out.append(unit * d + t)
    n = len(lines)
    for r in rw.get(n, []):
        if r[0] == 'comment-line':
            out.append(unit * r[2] + (r[3] if len(r) > 3 else '# c'))
        elif r[0] == 'blank':
            out.append('')
        elif r[0] == 'ws-line':
            out.append(unit * r[2] + ' ')
    return '\n'.join(out) + ('\n' if final_newline else '')


def single_rewrites(lines):
    n = len(lines)
    maxd = max(d for d, _ in lines) + 1
    for pos in range(0, n + 1):
        for ind in range(0, maxd + 1):
            yield ('comment-line', pos, ind)
        # a comment without text (a bare '#' directly before the line end) and one made of '#' only
        yield ('comment-line', pos, 0, '#')
        yield ('comment-line', pos, min(1, maxd), '##')
        yield ('blank', pos)
        yield ('ws-line', pos, 1)
    for pos in range(n):
        yield ('eol-comment', pos)
        yield ('eol-comment', pos, ' #')
        yield ('eol-comment', pos, '#')
        yield ('trailing-space', pos)
        yield ('trailing-tab', pos)
        if '\n' in lines[pos][1]:
            yield ('bracket-comment', pos)
            yield ('bracket-comment', pos, '#')
            yield ('bracket-blank', pos)


UNITS_Q = ['\t', '  ', '    ']
UNITS_T = ['\t', ' ', '  ', '   ', '    ', '        ']


def block_worker(task):
    from rogw.tranp.implements.syntax.tranp.token import TokenDefinition
    from rogw.tranp.implements.syntax.tranp.tokenizer import Lexer, Tokenizer
    patterns, quick, ops = task
    lexer, tokenizer = Lexer(TokenDefinition()), Tokenizer()
    ops = set(ops)
    res = {'n': 0, 'skipped': 0, 'nontrivial': 0, 'viol': [], 'outcomes': set()}
    units = UNITS_Q if quick else UNITS_T
    for depths in patterns:
        for pick in range(2 if quick else 5):
            lines = block_program(depths, pick)
            base_sig = None
            for unit in units:
                uname = {'\t': 'tab'}.get(unit, f'{len(unit)}sp')
                base = render(lines, unit)
                variants = [((), True), ((), False)]
                for r in single_rewrites(lines):
                    variants.append(((r,), True))
                if not quick:
                    # pairs of rewrites at adjacent positions (where line-break merging interacts)
                    singles_ = list(single_rewrites(lines))
                    for r1, r2 in itertools.combinations(singles_, 2):
                        if abs(r1[1] - r2[1]) <= 1 and r1[0] != r2[0]:
                            variants.append(((r1, r2), True))
                    for r in singles_:
                        variants.append(((r,), False))
                ref = None
                for rws, fnl in variants:
                    src = render(lines, unit, rws, fnl)
                    kinds = '+'.join(sorted({r[0] for r in rws})) or 'none'
                    meta = {'sig': ['block', f'rewrite={kinds}', f'final-newline={fnl}']}
                    j = judge(src, ops, lexer, tokenizer, meta)
                    res['n'] += 1
                    if j[0][0] == 'skip':
                        res['skipped'] += 1
                        continue
                    if j[0][0] == 'ok':
                        if len(depths) > 1:
                            res['nontrivial'] += 1
                        res['outcomes'].add(hash(j[0][1]) & 0xffff)
                        if ref is None:
                            ref = (src, j[0][1], j[0][2])
                        elif j[0][2] == ref[2] and j[0][1] != ref[1]:
                            res['viol'].append((['layout-changes-tokens', f'rewrite={kinds}', f'final-newline={fnl}'], f'{ref[0]!r} vs {src!r}: significant tokens differ', {'src': src, 'base': ref[0]}))
                        # across indent units the significant sequence must be identical too
                        if base_sig is None:
                            base_sig = (src, j[0][1])
                        elif not rws and fnl and j[0][1] != base_sig[1]:
                            res['viol'].append((['indent-unit-changes-tokens', f'unit={uname}'], f'{base_sig[0]!r} vs {src!r}', {'src': src, 'base': base_sig[0]}))
                    else:
                        for sig, what in j:
                            res['viol'].append((sig + [f'unit={uname}'] if sig[0] in ('differs-from-cpython', 'unbalanced-indent') else sig, what, {'src': src}))
    res['outcomes'] = len(res['outcomes'])
    return res


def flat_worker(task):
    from rogw.tranp.implements.syntax.tranp.token import TokenDefinition
    from rogw.tranp.implements.syntax.tranp.tokenizer import Lexer, Tokenizer
    sources, ops = task
    lexer, tokenizer = Lexer(TokenDefinition()), Tokenizer()
    ops = set(ops)
    res = {'n': 0, 'skipped': 0, 'nontrivial': 0, 'viol': [], 'outcomes': set()}
    for src, sig in sources:
        j = judge(src, ops, lexer, tokenizer, {'sig': sig})
        res['n'] += 1
        if j[0][0] == 'skip':
            res['skipped'] += 1
        elif j[0][0] == 'ok':
            if len(j[0][2]) >= 3:
                res['nontrivial'] += 1
            res['outcomes'].add(len(j[0][2]))
        else:
            for s, what in j:
                # refine signature with the adjacent token kinds of the first mismatch (already in s)
                res['viol'].append((s, what, {'src': src}))
    res['outcomes'] = len(res['outcomes'])
    return res


def string_sources(quick):
    strs = STRINGS_Q + STRINGS_ESC_Q if quick else STRINGS_T
    for s in strs:
        for pre, post in [('x = ', ''), ('f(', ')'), ('', ' + a'), ('a, ', ', b')]:
            yield f'{pre}{s}{post}\n', ['string', 'kind=' + ('raw' if s[0] == 'r' else 'triple' if '"""' in s else 'escape' if '\\' in s else 'plain')]
        for s2 in strs:
            yield f'{s} {s2}\n', ['string', 'pair']
            yield f'{s}{s2}\n', ['string', 'pair-adjacent']


def run(ctx):
    singles, combined, outside = supported_ops()
    ops = singles + combined
    flat = list(flat_sources(ctx.quick, singles, combined)) + list(string_sources(ctx.quick))
    ctx.log(f'{len(flat)} flat sources; ops={len(ops)}')
    tasks = [(c, ops) for c in pool.chunked(flat, 4000)]
    results = pool.pmap(flat_worker, tasks, workers=ctx.workers, rotate=ctx.seed)
    n_lines = 5 if ctx.quick else 6
    pats = [p for n in range(1, n_lines + 1) for p in depth_patterns(n, 3)]
    ctx.log(f'{len(pats)} indentation patterns up to {n_lines} lines')
    btasks = [(c, ctx.quick, ops) for c in pool.chunked(pats, max(1, len(pats) // (ctx.workers * 4)))]
    results += pool.pmap(block_worker, btasks, workers=ctx.workers, rotate=ctx.seed)
    n = skipped = nontriv = outcomes = 0
    for r in results:
        n += r['n']
        skipped += r['skipped']
        nontriv += r['nontrivial']
        outcomes += r['outcomes']
        ctx.merge(r['viol'])
    return {
        'evaluations': n,
        'distinct_nontrivial': nontriv,
        'rule': f'(a) every token sequence of length <= 3 (thorough: + operand-op-op-operand and 4 single symbols) over operands {NAMES + NUMBERS + STRINGS_Q} and every supported operator ({len(ops)}), each adjacent pair both glued and space-separated; (b) every indentation pattern d_0=0, d_i+1 <= d_i + 1 up to {n_lines} lines, depth <= 3, rendered with indent units {UNITS_Q if ctx.quick else UNITS_T}, with every single layout rewrite (comment line at every indentation, blank line, white-space-only line, end-of-line comment, trailing blanks, comment/blank inside a bracket continuation, final newline on/off; thorough: adjacent pairs of rewrites); non-trivial = judged (inside subset, accepted by CPython) and >= 3 significant tokens / >= 2 lines',
        'samples': [flat[0][0], flat[len(flat) // 2][0], flat[-1][0], render(block_program(pats[-1], 0), '\t'), render(block_program(pats[len(pats) // 2], 1), '  ', (('comment-line', 1, 0),))],
        'skipped_outside_subset_or_rejected_by_cpython': skipped,
        'operators_outside_subset': outside,
        'distinct_outcome_shapes': outcomes,
        'exhaustive': True,
        'bound': f'flat<=3{"" if ctx.quick else "+len4 families"}, lines<={n_lines}',
        'out_of_domain': 'backslash continuations, f-strings with replacement fields, triple single quotes, bytes prefixes, exponents/underscores/leading-dot numbers, python operators absent from TokenDefinition (//, <<=, >>=, **=, //=, @=), irregular indentation widths',
    }


def replay(ctx, data):
    from rogw.tranp.implements.syntax.tranp.token import TokenDefinition
    from rogw.tranp.implements.syntax.tranp.tokenizer import Lexer, Tokenizer
    singles, combined, _ = supported_ops()
    lexer, tokenizer = Lexer(TokenDefinition()), Tokenizer()
    j = judge(data['src'], set(singles + combined), lexer, tokenizer, {'sig': ['replay']})
    for item in j:
        if item[0] not in ('ok', 'skip'):
            ctx.violation(item[0], item[1], data)
    if 'base' in data and j and j[0][0] == 'ok':
        jb = judge(data['base'], set(singles + combined), lexer, tokenizer, {'sig': ['replay']})
        if jb and jb[0][0] == 'ok' and jb[0][1] != j[0][1]:
            ctx.violation(['layout-changes-tokens', 'replay'], f'{data["base"]!r} vs {data["src"]!r}', data)
