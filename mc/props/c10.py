"""C10 -- tree addressing is a bijection and node resolution is order-independent.

Part A (E2): every ordered labelled tree with <= n entries (tags a/b resolvable, s unresolvable, None empty;
childless entries as token, empty tree or empty slot) built with EntryOfDict; reference addressing is computed
by the check itself. Laws: full_pathfy is injective and equals the reference paths in document order, pluck
returns that very entry, EntryCache ids follow document order, Nodes.exists/by/children/siblings/parent/
ancestor/values/id agree with the reference tree.
Part B (E1): on real parse trees, state = the set of nodes a fresh NodeResolver has already instantiated;
transitions = one more query (by/parent/children/expand/procedural on any path). Every prior-query sequence
up to the bound is executed on a fresh resolver and the complete path->class table must equal the table of
the untouched state.
"""
import itertools
import re

from mc.core import pool
from mc.gen import corpus, larksent

ID = 'C10'
LEVEL = 'model_checking'

# 'ab' has no node class of its own (fallback) and its name starts with the mapped tag 'a': paths of siblings can be
# string prefixes of each other (r.a / r.ab)
INNER = ['a', 'b', 'ab']
LEAF = [('a', 'tok'), ('b', 'tok'), ('a', 'tree'), ('ab', 'tok'), (None, 'none')]


# ------------------------------------------------------------------------------------------ part A

def shapes(n: int, cache={}):
    """All ordered rooted tree shapes with n nodes as nested tuples of children."""
    if n in cache:
        return cache[n]
    if n == 1:
        res = [()]
    else:
        res = []
        # forests with n-1 nodes
        for forest in forests(n - 1):
            res.append(tuple(forest))
    cache[n] = res
    return res


def forests(n: int, cache={}):
    if n in cache:
        return cache[n]
    if n == 0:
        res = [[]]
    else:
        res = []
        for first in range(1, n + 1):
            for t in shapes(first):
                for rest in forests(n - first):
                    res.append([t] + rest)
    cache[n] = res
    return res


def count_nodes(shape):
    return 1 + sum(count_nodes(c) for c in shape)


def label_shape(shape, labels, is_root=True):
    """Consume labels iterator; returns dict tree for EntryOfDict."""
    if is_root:
        return {'name': 'r', 'children': [label_shape(c, labels, False) for c in shape]}
    lab = next(labels)
    if shape:
        return {'name': lab, 'children': [label_shape(c, labels, False) for c in shape]}
    tag, kind = lab
    if kind == 'none':
        return None
    if kind == 'tree':
        return {'name': tag, 'children': []}
    return {'name': tag, 'value': f'v{next(_counter)}'}


_counter = itertools.count()


def labelings(shape):
    """All label assignments for the non-root nodes of shape in pre-order: inner nodes from INNER, childless from LEAF."""
    slots = []

    def rec(s, root):
        if not root:
            slots.append(INNER if s else LEAF)
        for c in s:
            rec(c, False)
    rec(shape, True)
    return itertools.product(*slots)


def ref_paths(tree):
    """Reference addressing: [(path, entry dict|None, parent path, tag)] in document order."""
    out = []

    def rec(e, path, parent):
        out.append((path, e, parent))
        if e is not None and 'children' in e:
            ch = e['children']
            names = [(c['name'] if c is not None else '__empty__') for c in ch]
            for i, c in enumerate(ch):
                tag = names[i]
                elem = tag if names.count(tag) == 1 else f'{tag}[{i}]'
                rec(c, f'{path}.{elem}', path)
    rec(tree, 'r', None)
    return out


def ref_expand(ref, via):
    """Reference for Nodes.expand(via): the nearest mapped entries below via (at most 3 levels down) and the leaves that
    have no mapped entry on their way, in document order. Ancestry is decided on path *elements*, not on strings."""
    ve = via.split('.')
    out, recorded = [], []
    for p, e, _ in ref:
        pe = p.split('.')
        if len(pe) <= len(ve) or pe[:len(ve)] != ve or len(pe) - len(ve) > 3:
            continue
        if any(pe[:len(c)] == c for c in recorded):
            continue
        tags = [re.sub(r'\[\d+\]', '', x) for x in pe[len(ve):]]
        if tags[-1] in RESOLVABLE:
            recorded.append(pe)
            out.append(p)
            continue
        if isinstance(e, dict) and 'children' in e:
            continue
        if not any(t in RESOLVABLE for t in tags):
            out.append(p)
    return out


def make_nodes(root_entry, mapping):
    from rogw.tranp.lang.di import DI
    from rogw.tranp.lang.locator import Invoker, Locator
    from rogw.tranp.module.types import ModulePath
    from rogw.tranp.providers.module import module_path_dummy
    from rogw.tranp.syntax.ast.entry import Entry
    from rogw.tranp.syntax.ast.query import Query
    from rogw.tranp.syntax.ast.resolver import SymbolMapping
    from rogw.tranp.syntax.node.node import Node
    from rogw.tranp.syntax.node.query import Nodes
    from rogw.tranp.syntax.node.resolver import NodeResolver
    di = DI()
    di.bind(Locator, lambda: di)
    di.bind(Invoker, lambda: di.invoke)
    di.bind(Query[Node], Nodes)
    di.bind(NodeResolver, NodeResolver)
    di.bind(ModulePath, module_path_dummy)
    di.bind(SymbolMapping, mapping)
    di.bind(Entry, lambda: root_entry)
    return di.resolve(Query[Node]), di.resolve(NodeResolver)


_classes = {}


def dict_mapping():
    from rogw.tranp.syntax.ast.resolver import SymbolMapping
    from rogw.tranp.syntax.node.node import Node
    if not _classes:
        for name in ['R', 'A', 'B', 'Term', 'Emp']:
            _classes[name] = type(name, (Node,), {})
    return SymbolMapping[Node](symbols={_classes['R']: ['r'], _classes['A']: ['a'], _classes['B']: ['b'], _classes['Emp']: ['__empty__']}, fallback=_classes['Term'])


RESOLVABLE = {'r', 'a', 'b', '__empty__'}


def tag_of(path: str) -> str:
    last = path.split('.')[-1]
    return last.split('[')[0]


def check_tree(tree, desc):
    from rogw.tranp.errors import Errors
    from rogw.tranp.syntax.ast.cache import EntryCache
    from rogw.tranp.syntax.ast.entry import EntryOfDict
    from rogw.tranp.syntax.ast.finder import ASTFinder
    viol = []

    def add(sig, what):
        viol.append((sig, f'{desc}: {what}', {'tree': tree}))
    ref = ref_paths(tree)
    root = EntryOfDict(tree)
    finder = ASTFinder()
    fp = finder.full_pathfy(root)
    keys = list(fp.keys())
    want_keys = [p for p, _, _ in ref]
    if len(keys) != len(ref):
        add(['full_pathfy', 'not-injective-or-missing'], f'{len(keys)} paths for {len(ref)} entries: {keys} vs {want_keys}')
        return viol
    if keys != want_keys:
        add(['full_pathfy', 'paths-or-order'], f'{keys} vs reference {want_keys}')
        return viol
    by_path = {p: e for p, e, _ in ref}
    for p, e, _ in ref:
        if fp[p].source is not e:
            add(['full_pathfy', 'wrong-entry'], f'{p} maps to another entry')
        try:
            got = finder.pluck(root, p)
            if got.source is not e:
                add(['pluck', 'wrong-entry', 'indexed' if p.endswith(']') else 'by-tag'], f'pluck({p}) returned another entry')
        except Errors.NodeNotFound:
            add(['pluck', 'not-found', 'indexed' if p.endswith(']') else 'by-tag'], f'pluck({p}) raised NodeNotFound')
        if not finder.exists(root, p):
            add(['exists', 'false-for-real-path'], p)
    # strings that are not the path of any entry must not address one: another root name, an index on a unique tag,
    # a repeated tag without its index
    for p, e, parent in ref:
        if parent is None:
            continue
        elems = p.split('.')
        last = elems[-1]
        aliases = [('other-root', '.'.join(['zzz'] + elems[1:]))]
        if last.endswith(']'):
            aliases.append(('index-dropped', '.'.join(elems[:-1] + [re.sub(r'\[\d+\]$', '', last)])))
        else:
            siblings = [c for c in by_path[parent]['children']]
            aliases.append(('index-added', '.'.join(elems[:-1] + [f'{last}[{[i for i, c in enumerate(siblings) if c is e][0]}]'])))
        # other spellings of a real path: an empty element, a padded / signed / zero-filled / negative index, a stray bracket
        aliases += [('empty-element', p.replace('.', '..', 1)), ('leading-dot', '.' + p), ('trailing-dot', p + '.')]
        if last.endswith(']'):
            k = int(re.search(r'\[(\d+)\]$', last).group(1))
            stem = '.'.join(elems[:-1] + [re.sub(r'\[\d+\]$', '', last)])
            n_sib = len(by_path[parent]['children'])
            aliases += [('index-zero-filled', f'{stem}[0{k}]'), ('index-padded', f'{stem}[ {k}]'), ('index-signed', f'{stem}[+{k}]'), ('index-negative', f'{stem}[{k - n_sib}]'),
                        ('bracket-doubled', f'{stem}[{k}]]'), ('index-not-a-number', f'{stem}[x]'), ('index-twice', f'{stem}[{k}][{k}]'),
                        ('index-full-width', f'{stem}[' + ''.join(chr(0xFF10 + int(c)) for c in str(k)) + ']')]
        for kind, alias in aliases:
            try:
                found = finder.exists(root, alias)
            except Exception as ex:  # noqa
                add(['exists', 'raises', kind], f'exists({alias}) raised {type(ex).__name__}')
                continue
            if found:
                add(['exists', 'alias-resolves', kind], f'exists({alias}) is true although no entry has that path (it resolves to the entry of {p})')
    # a path that extends past a leaf or names a missing tag must not exist
    for p, e, _ in ref:
        for miss in (f'{p}.zz', f'{p}.zz[0]'):
            if finder.exists(root, miss):
                add(['exists', 'true-for-missing-path'], miss)
    # EntryCache
    cache = EntryCache()
    for p, ent in fp.items():
        cache.add(p, ent)
    for i, (p, _, _) in enumerate(ref):
        if cache.index_of(p) != i:
            add(['cache', 'index-order'], f'index_of({p}) = {cache.index_of(p)}, document order {i}')
            break
    # Nodes
    nodes, _ = make_nodes(root, dict_mapping)
    children_ref = {}
    for p, e, parent in ref:
        children_ref.setdefault(p, [])
        if parent is not None:
            children_ref[parent].append(p)
    for i, (p, e, parent) in enumerate(ref):
        tag = tag_of(p)
        try:
            if not nodes.exists(p):
                add(['nodes', 'exists-false'], p)
                continue
            n = nodes.by(p)
            want_cls = {'r': 'R', 'a': 'A', 'b': 'B', '__empty__': 'Emp'}.get(tag, 'Term')
            if type(n).__name__ != want_cls or n.full_path != p:
                add(['nodes', 'by-class'], f'by({p}) -> {type(n).__name__} {n.full_path}, expected {want_cls}')
            if nodes.id(p) != i:
                add(['nodes', 'id-order'], f'id({p}) = {nodes.id(p)}, document order {i}')
            got_children = [c.full_path for c in nodes.children(p)]
            if got_children != children_ref[p]:
                add(['nodes', 'children'], f'children({p}) = {got_children}, expected {children_ref[p]}')
            got_expand = [c.full_path for c in nodes.expand(p)]
            want_expand = ref_expand(ref, p)
            if got_expand != want_expand:
                add(['nodes', 'expand'], f'expand({p}) = {got_expand}, expected {want_expand}')
            if parent is not None:
                got_sib = [c.full_path for c in nodes.siblings(p)]
                if got_sib != children_ref[parent]:
                    add(['nodes', 'siblings'], f'siblings({p}) = {got_sib}, expected {children_ref[parent]}')
                # nearest resolvable ancestor
                anc = parent
                while anc is not None and tag_of(anc) not in RESOLVABLE:
                    anc = [pp for q, _, pp in ref if q == anc][0]
                got_parent = nodes.parent(p).full_path
                if got_parent != anc:
                    add(['nodes', 'parent'], f'parent({p}) = {got_parent}, expected {anc}')
                # ancestor by tag: nearest proper ancestor carrying each tag on the way up
                chain = []
                q = parent
                while q is not None:
                    chain.append(q)
                    q = [pp for x, _, pp in ref if x == q][0]
                for t in {tag_of(c) for c in chain}:
                    want_anc = [c for c in chain if tag_of(c) == t][0]
                    got_anc = nodes.ancestor(p, t).full_path
                    if got_anc != want_anc:
                        add(['nodes', 'ancestor'], f'ancestor({p}, {t}) = {got_anc}, expected {want_anc}')
            sub = [q for q, _, _ in ref if q == p or q.startswith(p + '.')]
            want_vals = [by_path[q]['value'] for q in sub if by_path[q] is not None and 'value' in by_path[q]]
            if nodes.values(p) != want_vals:
                add(['nodes', 'values'], f'values({p}) = {nodes.values(p)}, expected {want_vals}')
        except Exception as ex:  # noqa
            add(['nodes', 'raises', type(ex).__name__], f'{p}: {type(ex).__name__}: {ex}')
    for miss in ['r.zz', 'zz', 'r.a[99]']:
        if miss not in by_path and nodes.exists(miss):
            add(['nodes', 'exists-true-for-missing'], miss)
    return viol


def tree_worker(task):
    n, shape_list = task
    viol, count = [], 0
    outcomes = set()
    for shape in shape_list:
        for labels in labelings(shape):
            tree = label_shape(shape, iter(labels))
            count += 1
            v = check_tree(tree, f'tree#{n}')
            outcomes.add(len(v))
            for sig, what, rep in v[:3]:
                viol.append((sig, what, rep))
    # keep the first per signature only (merge does it) but cap the payload
    seen, out = set(), []
    for sig, what, rep in viol:
        if tuple(sig) not in seen:
            seen.add(tuple(sig))
            out.append((sig, what, rep))
    return count, out


# ------------------------------------------------------------------------------------------ part B

OPS = ['by', 'parent', 'children', 'expand', 'procedural', 'tokens', 'siblings', 'node_siblings', 'node_children', 'node_under_expand']
RESULT_QUERIES = ['children', 'expand', 'siblings', 'parent']


def real_mapping():
    from rogw.tranp.providers.syntax.resolver import symbol_mapping
    return symbol_mapping()


def class_table(nodes, paths, reverse=False):
    table = {}
    for p in (reversed(paths) if reverse else paths):
        try:
            n = nodes.by(p)
            table[p] = type(n).__name__ if n.full_path == p else f'{type(n).__name__}@{n.full_path}'
        except Exception as e:  # noqa
            table[p] = f'raises:{type(e).__name__}'
    return table


def apply_op(nodes, op, p):
    try:
        if op == 'by':
            nodes.by(p)
        elif op == 'parent':
            nodes.parent(p)
        elif op == 'children':
            nodes.children(p)
        elif op == 'expand':
            nodes.expand(p)
        elif op == 'procedural':
            nodes.by(p).procedural()
        elif op == 'tokens':
            nodes.by(p).tokens
        elif op == 'siblings':
            nodes.siblings(p)
        elif op == 'node_siblings':
            nodes.by(p)._siblings()
        elif op == 'node_children':
            nodes.by(p)._children()
        elif op == 'node_under_expand':
            nodes.by(p)._under_expand()
    except Exception:  # noqa
        pass


def result_table(nodes, paths, only=None):
    """Answers of the list/parent queries for every path, as path lists."""
    out = {}
    for q in (only or RESULT_QUERIES):
        for p in paths:
            try:
                r = getattr(nodes, q)(p)
                out[(q, p)] = [n.full_path for n in r] if isinstance(r, list) else r.full_path
            except Exception as e:  # noqa
                out[(q, p)] = f'raises:{type(e).__name__}'
    return out


REVISION_SETS = [
    ['class A:\n\tdef __init__(self) -> None:\n\t\tself.x = 1\n', 'class A:\n\tdef setup(self) -> None:\n\t\tself.x = 1\n'],
    ['class A:\n\tdef __init__(self, n: int) -> None:\n\t\tself.a = n\n\t\tself.b = n\n\n\tdef get(self) -> int:\n\t\treturn self.a\n',
     'class A:\n\tdef prepare(self, n: int) -> None:\n\t\tself.a = n\n\t\tself.b = n\n\n\tdef __init__(self) -> None:\n\t\treturn self.a\n'],
    ['def f(a: int) -> int:\n\tx = a\n\treturn x\n', 'def f(a: int) -> int:\n\ta = a\n\treturn a\n'],
]


def _fork_call(fn):
    """Run fn() in a forked child (a process that has resolved nothing else since the fork); returns its JSON-able result."""
    import json as _json
    import os as _os
    r, w = _os.pipe()
    pid = _os.fork()
    if pid == 0:
        code = 0
        try:
            _os.close(r)
            _os.write(w, _json.dumps(fn()).encode())
        except BaseException as e:  # noqa
            try:
                _os.write(w, _json.dumps({'__error__': f'{type(e).__name__}: {e}'}).encode())
            except Exception:  # noqa
                code = 3
        finally:
            _os._exit(code)
    _os.close(w)
    data = b''
    while True:
        chunk = _os.read(r, 65536)
        if not chunk:
            break
        data += chunk
    _os.close(r)
    _os.waitpid(pid, 0)
    return _json.loads(data.decode()) if data else {'__error__': 'child died'}


def _table_of_text(text):
    from rogw.tranp.implements.syntax.lark.entry import EntryOfLark
    from rogw.tranp.syntax.ast.finder import ASTFinder
    root = EntryOfLark(_state['lark'].parse(text))
    paths = list(ASTFinder().full_pathfy(root).keys())
    return class_table(make_nodes(root, real_mapping)[0], paths)


def revision_layer():
    """Revisions of one module: texts of the same shape handled one after the other by one process under one module path
    (what a reloaded module is for the node resolver). The classes chosen for a revision equal those a process chooses
    that has seen nothing but that revision. Returns (histories, violations)."""
    viol, n = [], 0
    for texts in REVISION_SETS:
        ref = [_fork_call(lambda t=t: _table_of_text(t)) for t in texts]
        for order in itertools.permutations(range(len(texts))):
            for seq in (list(order), list(order) + [order[0]]):
                n += 1
                got = _fork_call(lambda seq=seq: [_table_of_text(texts[i]) for i in seq])
                if isinstance(got, dict):
                    viol.append((['revision-history', 'raises'], f'{got}', {'revisions': texts, 'order': seq}))
                    continue
                for k, i in enumerate(seq):
                    if got[k] != ref[i]:
                        bad = [p for p in ref[i] if got[k].get(p) != ref[i][p]][0]
                        viol.append((['class-depends-on-history', f'{ref[i][bad]}->{got[k].get(bad)}', 'after=earlier-revision'],
                                     f'revision {i} handled after revisions {seq[:k]} of the same module path: {bad} resolves to {got[k].get(bad)}, alone to {ref[i][bad]}', {'revisions': texts, 'order': seq}))
                        break
    return n, viol


def order_worker(task):
    """One source text: explore prior-query sequences up to depth; compare full class tables."""
    from rogw.tranp.implements.syntax.lark.entry import EntryOfLark
    from rogw.tranp.syntax.ast.finder import ASTFinder
    text, depth, max_paths_for_depth = task
    lark = _state['lark']
    try:
        tree = lark.parse(text if text.endswith('\n') else text + '\n')
    except Exception:  # noqa
        return None
    root = EntryOfLark(tree)
    paths = list(ASTFinder().full_pathfy(root).keys())
    nodes0, _ = make_nodes(root, real_mapping)
    ref = class_table(nodes0, paths)
    # reference answers: one fresh Nodes object per query kind (it never answered anything else before)
    ref_results = {}
    for q in RESULT_QUERIES:
        ref_results.update(result_table(make_nodes(root, real_mapping)[0], paths, [q]))
    d = depth if len(paths) <= max_paths_for_depth else 1
    alphabet = [(op, p) for p in paths for op in OPS]
    states = set()
    transitions = 0
    viol = []
    seen_sig = set()
    for k in range(1, d + 1):
        for seq in itertools.product(alphabet, repeat=k):
            nodes, resolver = make_nodes(root, real_mapping)
            for op, p in seq:
                apply_op(nodes, op, p)
                transitions += 1
            states.add(frozenset(resolver._NodeResolver__insts.keys()))
            for rev in (False, True):
                got = class_table(nodes, paths, rev)
                if got != ref:
                    bad = [p for p in paths if got[p] != ref[p]][0]
                    sig = ['class-depends-on-history', f'{ref[bad]}->{got[bad]}', 'after=' + '+'.join(op for op, _ in seq)]
                    if tuple(sig) not in seen_sig:
                        seen_sig.add(tuple(sig))
                        viol.append((sig, f'{text!r}: after {list(seq)} path {bad} resolves to {got[bad]}, in a fresh resolver to {ref[bad]}', {'src': text, 'prior': [list(x) for x in seq]}))
            if k == 1:
                # answers of the list queries after one prior query (any kind, any path) equal the fresh answers
                got_r = result_table(nodes, paths)
                if got_r != ref_results:
                    q, bp = [key for key in ref_results if got_r[key] != ref_results[key]][0]
                    sig = ['answer-depends-on-history', q, 'after=' + seq[0][0]]
                    if tuple(sig) not in seen_sig:
                        seen_sig.add(tuple(sig))
                        viol.append((sig, f'{text!r}: after {list(seq)} {q}({bp}) = {got_r[(q, bp)]}, on a fresh Nodes object {ref_results[(q, bp)]}', {'src': text, 'prior': [list(x) for x in seq]}))
    return len(paths), len(states), transitions, viol


_state = {}


def _init_worker():
    from mc.tranp.session import Session
    from rogw.tranp.syntax.ast.parser import SyntaxParser
    s = Session({'__main__': 'a = 1\n'})
    _state['lark'] = s.get(SyntaxParser).dirty_get_origin()


def order_corpus(quick: bool):
    base = [f'class C:\n{larksent.indent(m)}' for m in larksent.METHOD_FORMS]
    base += ['def f(x: int) -> int:\n\tdef g() -> None:\n\t\tpass\n\treturn x', 'x = 1', 'x: int = 1', 'x = 1.5', 'x, y = a', 'a.b = 1', 'for i in a:\n\tpass',
             'try:\n\tpass\nexcept E as e:\n\tpass', 'with a as f:\n\tpass', 'from m import x as y', 'class E(Enum):\n\tA = 1', 'x = [i for i in a]', 'f = lambda x: x',
             'def f() -> None:\n\t"""doc"""\n\tpass', 'x: list[int] = []', 'x: dict[str, int] = {}', 'x: Callable[[int], None] = f', 'cls.a = self.b', 'super().__init__()',
             'class C:\n\tx: ClassVar[int] = 1', "T = TypeVar('T')", 'A: TypeAlias = int',
             # entries no node class accepts (the answer must be the same UnresolvedNode on every query)
             'x = 0o17', 'x = 1j', 'y = 0b101 + 1']
    wide = ['\n'.join(f'x{i} = {i}' for i in range(12)), 'f(' + ', '.join(f'a{i}' for i in range(12)) + ')',
            'def f(' + ', '.join(f'p{i}: int' for i in range(12)) + ') -> None:\n\tpass', '[' + ', '.join(str(i) for i in range(13)) + ']']
    return (base if not quick else base[::2] + base[1:8:2]) + wide


def run(ctx):
    # ---- part A
    n_max = 6 if ctx.quick else 7
    tasks = []
    for n in range(1, n_max + 1):
        sh = shapes(n)
        for chunk in pool.chunked(sh, max(1, len(sh) // 16 + 1)):
            tasks.append((n, chunk))
    res = pool.pmap(tree_worker, tasks, workers=ctx.workers, rotate=ctx.seed)
    trees = 0
    for cnt, viol in res:
        trees += cnt
        ctx.merge(viol)
    # wide families beyond the enumeration bound: 10..13 siblings (two-digit indices), repeated and unique tags mixed
    wide_viol = []
    for k in (10, 11, 12, 13):
        for pattern in ('same', 'alternate', 'one-unique', 'with-empty'):
            ch = []
            for i in range(k):
                tag = 'a' if pattern == 'same' or (pattern == 'alternate' and i % 2 == 0) or (pattern == 'one-unique' and i != 3) or (pattern == 'with-empty' and i % 3) else ('b' if pattern != 'with-empty' else None)
                if tag is None:
                    ch.append(None)
                elif i % 4 == 1:
                    ch.append({'name': tag, 'children': [{'name': 'b', 'value': f'w{i}'}]})
                else:
                    ch.append({'name': tag, 'value': f'w{i}'})
            trees += 1
            wide_viol += check_tree({'name': 'r', 'children': ch}, f'wide{k}-{pattern}')
    # tags that repeat or extend the root's own tag ('r' below 'r', 'rb' whose name starts with it): every shape with <= 4
    # entries (5 thorough), inner entries from {r, rb}, childless ones from {r token, rb token, r tree, a token}
    inner2, leaf2 = ['r', 'rb'], [('r', 'tok'), ('rb', 'tok'), ('r', 'tree'), ('a', 'tok')]
    for n in range(2, (4 if ctx.quick else 5) + 1):
        for shape in shapes(n):
            slots = []

            def rec(sh, root):
                if not root:
                    slots.append(inner2 if sh else leaf2)
                for c in sh:
                    rec(c, False)
            rec(shape, True)
            for k, labels in enumerate(itertools.product(*slots)):
                trees += 1
                wide_viol += check_tree(label_shape(shape, iter(labels)), f'rootlike{n}-{k}')
    ctx.merge(wide_viol)
    ctx.log(f'part A: {trees} labelled trees with <= {n_max} entries (+ wide families)')
    # real parse trees: same laws do not need the reference builder; bijection via pluck on every real module
    # ---- part B
    texts = order_corpus(ctx.quick)
    depth = 2
    otasks = [(t, depth, 9 if ctx.quick else 14) for t in texts]
    res2 = pool.pmap(order_worker, otasks, workers=ctx.workers, init=_init_worker, rotate=ctx.seed)
    states = transitions = judged = 0
    for r in res2:
        if r is None:
            continue
        n_paths, st, tr, viol = r
        judged += 1
        states += st
        transitions += tr
        ctx.merge(viol)
    _init_worker()
    n_rev, rviol = revision_layer()
    ctx.merge(rviol)
    ctx.log(f'part B: {judged} parse trees, {states} resolver states, {transitions} transitions')
    # ---- real modules: pluck/full_pathfy bijection on every real tree
    rres = pool.pmap(real_worker, [src for _, _, src in corpus.real_modules()], workers=ctx.workers, init=_init_worker, rotate=ctx.seed)
    real_entries = 0
    for r in rres:
        if r is None:
            continue
        real_entries += r[0]
        ctx.merge(r[1])
    sample_tree = label_shape(shapes(4)[2], iter(next(labelings(shapes(4)[2]))))
    return {
        'states': max(1, states),
        'transitions': max(1, transitions),
        'traces_validated_against_impl': transitions,
        'samples': [{'tree': sample_tree}, {'src': texts[0], 'prior': [['procedural', 'file_input.class_def'], ['by', 'file_input']]}],
        'labelled_trees': trees,
        'real_tree_entries': real_entries,
        'parse_trees_explored': judged,
        'revision_histories': n_rev,
        'exhaustive': True,
        'bound': f'part A: all labelled ordered trees with <= {n_max} entries; part B: all prior-query sequences of length <= {depth} over {len(OPS)} query kinds x every path (length 1 for trees with more than {9 if ctx.quick else 14} entries), class table read in both directions; after every single prior query the answers of {RESULT_QUERIES} for every path equal those of a Nodes object that never answered anything else; revision layer: {n_rev} histories over {len(REVISION_SETS)} sets of same-shaped texts handled by one process under one module path, class tables equal to those of a process that has seen only that text',
        'evaluations': trees + transitions,
        'distinct_nontrivial': trees,
        'rule': 'non-trivial tree = at least 2 entries; distinct by construction (enumeration without repetition)',
    }


def real_worker(src):
    from rogw.tranp.errors import Errors
    from rogw.tranp.implements.syntax.lark.entry import EntryOfLark
    from rogw.tranp.syntax.ast.finder import ASTFinder
    try:
        tree = _state['lark'].parse(src if src.endswith('\n') else src + '\n')
    except Exception:  # noqa
        return None
    root = EntryOfLark(tree)
    finder = ASTFinder()
    fp = finder.full_pathfy(root)
    viol = []
    count = [0]

    def rec(e, n):
        n[0] += 1
        for c in e.children:
            rec(c, n)
    rec(root, count)
    if len(fp) != count[0]:
        viol.append((['real', 'full_pathfy-not-injective'], f'{len(fp)} paths for {count[0]} entries', {'src': src[:2000]}))
    for p, e in fp.items():
        try:
            got = finder.pluck(root, p)
            if got.source is not e.source:
                viol.append((['real', 'pluck-wrong-entry'], p, {'src': src[:2000]}))
                break
        except Errors.NodeNotFound:
            viol.append((['real', 'pluck-not-found'], p, {'src': src[:2000]}))
            break
    return count[0], viol


def replay(ctx, data):
    if 'tree' in data:
        ctx.merge(check_tree(data['tree'], 'replay'))
    elif 'revisions' in data:
        _init_worker()
        ctx.merge(revision_layer()[1])
    elif 'prior' in data:
        _init_worker()
        from rogw.tranp.implements.syntax.lark.entry import EntryOfLark
        from rogw.tranp.syntax.ast.finder import ASTFinder
        text = data['src']
        root = EntryOfLark(_state['lark'].parse(text if text.endswith('\n') else text + '\n'))
        paths = list(ASTFinder().full_pathfy(root).keys())
        ref = class_table(make_nodes(root, real_mapping)[0], paths)
        nodes, _ = make_nodes(root, real_mapping)
        for op, p in data['prior']:
            apply_op(nodes, op, p)
        got = class_table(nodes, paths)
        if got != ref:
            bad = [p for p in paths if got[p] != ref[p]][0]
            ctx.violation(['class-depends-on-history', 'replay'], f'{bad}: {ref[bad]} vs {got[bad]}', data)
        ref_results = {}
        for q in RESULT_QUERIES:
            ref_results.update(result_table(make_nodes(root, real_mapping)[0], paths, [q]))
        nodes, _ = make_nodes(root, real_mapping)
        for op, p in data['prior']:
            apply_op(nodes, op, p)
        got_r = result_table(nodes, paths)
        if got_r != ref_results:
            q, bp = [key for key in ref_results if got_r[key] != ref_results[key]][0]
            ctx.violation(['answer-depends-on-history', 'replay'], f'{q}({bp}) = {got_r[(q, bp)]}, fresh {ref_results[(q, bp)]}', data)
    else:
        _init_worker()
        r = real_worker(data['src'])
        if r:
            ctx.merge(r[1])
