// Canonical value encoding shared with the Python side (mc/oracle/cpprun.py: enc()).
#pragma once
#include <type_traits>
inline std::string enc(bool v) { return v ? "T" : "F"; }
inline std::string enc(int v) { return "i" + std::to_string(v); }
inline std::string enc(long v) { return "i" + std::to_string(v); }
inline std::string enc(long long v) { return "i" + std::to_string(v); }
inline std::string enc(unsigned long v) { return "i" + std::to_string(v); }
inline std::string enc(double v) { char b[64]; snprintf(b, sizeof b, "%.12g", v); return std::string("f") + b; }
inline std::string enc(float v) { return enc((double)v); }
inline std::string enc(const std::string& v) {
	std::string o = "s\"";
	for (char c : v) { if (c == '"' || c == '\\') { o += '\\'; o += c; } else if (c == '\n') { o += "\\n"; } else { o += c; } }
	return o + "\"";
}
inline std::string enc(const char* v) { return enc(std::string(v)); }
template<class E, std::enable_if_t<std::is_enum_v<E>, int> = 0> std::string enc(E v) { return "e" + std::to_string((int)v); }
template<class T> std::string enc(const std::vector<T>& v);
template<class K, class V> std::string enc(const std::map<K, V>& v);
template<class... T> std::string enc(const std::tuple<T...>& v);
template<class A, class B> std::string enc(const std::pair<A, B>& v) { return "(" + enc(v.first) + "," + enc(v.second) + ")"; }
template<class T> std::string enc(const std::vector<T>& v) { std::string o = "["; bool first = true; for (const auto& e : v) { if (!first) o += ","; first = false; o += enc(e); } return o + "]"; }
template<class K, class V> std::string enc(const std::map<K, V>& v) { std::string o = "{"; bool first = true; for (const auto& [k, x] : v) { if (!first) o += ","; first = false; o += enc(k) + ":" + enc(x); } return o + "}"; }
template<class... T> std::string enc(const std::tuple<T...>& v) { std::string o = "("; bool first = true; std::apply([&](const auto&... e) { ((o += (first ? "" : ","), first = false, o += enc(e)), ...); }, v); return o + ")"; }
