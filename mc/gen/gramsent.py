"""Sentences derived from a Rules object of tranp's own parsing engine (C11, C12).

Deviation-bounded derivation: the cost of a derivation is the number of non-default choices (one repeat
instance, one present optional, a non-first terminal sample, re-entering a symbol that is already being
expanded, selected 'heavier' alternatives). derive(rules, start, n) enumerates every token sequence whose
derivation costs at most n. Tokens are rendered with the layout the lexer documents (one blank between
tokens, none after the unary minus marker, tabs for blocks).
"""
import itertools

SAMPLES = {
    'name': ['a', 'b'],
    'digit': ['0', '1'],
    'decimal': ['1.5'],
    'string': ["'s'", '"t"'],
    'boolean': ['False', 'True'],
    'op_comp_s': ['<', '>', '==', '<=', '>=', '!='],
    'op_add': ['+', '-'],
    'op_mul': ['*', '/', '%'],
    'packing': ['*', '**'],
}
# operators are all 'default' samples (every operator must appear at the lowest bound); identifiers/literals are not
FREE_SAMPLES = {'op_comp_s', 'op_add', 'op_mul', 'packing'}
# heavier alternatives of 'atom' cost one deviation so that the cost-0 leaf set stays small
ALT_COST = {'atom': {'boolean': 1, 'none': 1, 'decimal': 1, 'list': 1, 'tuple': 1, 'dict': 1}}
MAX_REP = 2


class Deriver:
    def __init__(self, rules, samples=None, alt_cost=None):
        self.rules = rules
        self.samples = samples or SAMPLES
        self.alt_cost = alt_cost if alt_cost is not None else ALT_COST
        self.memo = {}
        syms = list(rules.keys())
        self.recursive = self._recursive_symbols(syms)

    def _refs(self, p):
        from rogw.tranp.implements.syntax.tranp.rule import Pattern, Roles
        if isinstance(p, Pattern):
            return [p.expression] if p.role == Roles.Symbol else []
        out = []
        for e in p.entries:
            out += self._refs(e)
        return out

    def _recursive_symbols(self, syms):
        graph = {s: set(self._refs(self.rules[s])) for s in syms}
        rec = set()
        for s in syms:
            seen, todo = set(), list(graph[s])
            while todo:
                x = todo.pop()
                if x == s:
                    rec.add(s)
                    break
                if x in seen or x not in graph:
                    continue
                seen.add(x)
                todo += list(graph[x])
        return rec

    def symbol(self, sym: str, n: int, stack=frozenset()):
        """{cost: set(token tuples)} for derivations of `sym` with cost <= n."""
        from rogw.tranp.implements.syntax.tranp.rule import Pattern, Roles
        extra = 1 if sym in stack else 0
        if n - extra < 0:
            return {}
        key = (sym, n - extra, stack & self.recursive)
        if key in self.memo:
            res = self.memo[key]
        else:
            self.memo[key] = {}   # guards against unbounded re-entrance while being computed
            pat = self.rules[sym]
            st = (stack | {sym}) if sym in self.recursive else stack
            if isinstance(pat, Pattern) and pat.role == Roles.Terminal:
                res = self.terminal(sym, pat, n - extra)
            else:
                res = self.pattern(pat, n - extra, st, sym)
            self.memo[key] = res
        if not extra:
            return res
        return {c + extra: v for c, v in res.items() if c + extra <= n}

    def terminal(self, sym, pat, n):
        from rogw.tranp.implements.syntax.tranp.rule import Comps
        if pat.comp == Comps.Equals:
            return {0: {(pat.expression,)}}
        out = {}
        for i, s in enumerate(self.samples.get(sym, [])):
            c = 0 if (i == 0 or sym in FREE_SAMPLES) else 1
            if c <= n:
                out.setdefault(c, set()).add((s,))
        return out

    def pattern(self, p, n, stack, owner):
        from rogw.tranp.implements.syntax.tranp.rule import Operators, Pattern, Repeators, Roles
        if isinstance(p, Pattern):
            if p.role == Roles.Terminal:
                return self.terminal(owner, p, n)
            return self.symbol(p.expression, n, stack)
        if p.rep != Repeators.NoRepeat:
            inner = self.group(p, n, stack, owner)
            out = {}
            if p.rep in (Repeators.OverZero, Repeators.OneOrZero, Repeators.OneOrEmpty):
                out[0] = {()}
            max_rep = 1 if p.rep in (Repeators.OneOrZero, Repeators.OneOrEmpty) else MAX_REP
            # k instances cost k (the first instance of '+' is free)
            free_first = p.rep == Repeators.OverOne
            cur = {0: {()}}
            for k in range(1, max_rep + 1):
                step_cost = 0 if (free_first and k == 1) else 1
                nxt = {}
                for c1, s1 in cur.items():
                    for c2, s2 in inner.items():
                        c = c1 + c2 + step_cost
                        if c > n:
                            continue
                        bucket = nxt.setdefault(c, set())
                        for a in s1:
                            for b in s2:
                                bucket.add(a + b)
                for c, v in nxt.items():
                    out.setdefault(c, set()).update(v)
                cur = nxt
                if not cur:
                    break
            return out
        return self.group(p, n, stack, owner)

    def group(self, p, n, stack, owner):
        from rogw.tranp.implements.syntax.tranp.rule import Operators, Pattern, Roles
        if p.op == Operators.Or:
            out = {}
            for e in p.entries:
                extra = 0
                if isinstance(e, Pattern) and e.role == Roles.Symbol:
                    extra = self.alt_cost.get(owner, {}).get(e.expression, 0)
                if n - extra < 0:
                    continue
                for c, v in self.pattern(e, n - extra, stack, owner).items():
                    out.setdefault(c + extra, set()).update(v)
            return out
        cur = {0: {()}}
        for e in p.entries:
            nxt = {}
            for c1, s1 in cur.items():
                for c2, s2 in self.pattern(e, n - c1, stack, owner).items():
                    c = c1 + c2
                    if c > n:
                        continue
                    bucket = nxt.setdefault(c, set())
                    for a in s1:
                        for b in s2:
                            bucket.add(a + b)
            cur = nxt
            if not cur:
                return {}
        return cur


def derive(rules, start: str, n: int, **kw):
    d = Deriver(rules, **kw)
    res = d.symbol(start, n)
    out = []
    for c in sorted(res):
        for toks in sorted(res[c]):
            out.append((c, toks))
    return out


def render(tokens) -> str:
    """Token sequence -> source text with canonical layout."""
    out = []
    depth = 0
    line = []

    def flush():
        if line:
            out.append('\t' * depth_at_line[0] + ' '.join(line).replace('\\OP_UNARY_MINUS ', '-').replace('\\OP_UNARY_MINUS', '-'))
            line.clear()
    depth_at_line = [0]
    for t in tokens:
        if t == '\n':
            flush()
            depth_at_line[0] = depth
        elif t == '\\INDENT':
            depth += 1
            depth_at_line[0] = depth
        elif t == '\\DEDENT':
            depth -= 1
            depth_at_line[0] = depth
        else:
            if not line:
                depth_at_line[0] = depth
            line.append(t)
    flush()
    return '\n'.join(out) + '\n'
