"""Scratch project directories driven through the real command line entry point (C05, C06, C04 target order).

A workspace is a directory: config.yml, data -> /repo/data, proj/**.py, .cache/tranp/**, outputs. Every CLI run
happens in a forked child of the calling process (fresh App, fresh DI, fresh loaders -- a new process as far
as tranp's state is concerned) with cwd = the workspace. mtimes of sources are assigned by the harness.
"""
import hashlib
import json
import os
import shutil
import sys
import tempfile

from mc.core.runner import REPO

CONFIG_TEMPLATE = '''grammar: {grammar}
template_dirs:
{tpl}  - data/cpp/template
trans_mapping: data/i18n.yml
input_globs:
{globs}
output_dirs:
{outs}
output_language: cpp:h
exclude_patterns: []
{di}env:
  transpiler:
    include_dirs: {include_dirs}
  view:
    immutable_param_types:
      - std::string
      - std::vector
      - std::map
      - std::function
'''

BASE_MTIME = 1_700_000_000


def cache_disabled():
    """DI factory referenced from config.yml (di:) to switch caching off."""
    from rogw.tranp.cache.cache import CacheSetting
    return CacheSetting(basedir='.cache/tranp', enabled=False)


class Workspace:
    def __init__(self, root: str) -> None:
        self.root = root

    @classmethod
    def create(cls, root: str, input_globs=('proj/*.py',), output_dirs=('out/',), cache_enabled=True, template_override=False, project_grammar=False) -> 'Workspace':
        os.makedirs(os.path.join(root, 'proj'), exist_ok=True)
        if project_grammar:
            # the project keeps its own copy of the grammar (config.yml: grammar)
            os.makedirs(os.path.join(root, 'gram'), exist_ok=True)
            shutil.copy(os.path.join(REPO, 'data', 'grammar.lark'), os.path.join(root, 'gram', 'grammar.lark'))
            os.utime(os.path.join(root, 'gram', 'grammar.lark'), (BASE_MTIME, BASE_MTIME))
        if not os.path.lexists(os.path.join(root, 'data')):
            os.symlink(os.path.join(REPO, 'data'), os.path.join(root, 'data'))
        ws = cls(root)
        if template_override:
            # a project template directory in front of the stock one: the list type template announces its header
            # through the documented emit_depends helper (no stock template does)
            os.makedirs(os.path.join(root, 'tpl', 'type'), exist_ok=True)
            with open(os.path.join(root, 'tpl', 'type', 'list_type.j2'), 'w') as f:
                f.write("{{- emit_depends('<vector>') -}}{{ i18n('classes', 'list') }}<{{ value_type }}>")
            os.utime(os.path.join(root, 'tpl', 'type', 'list_type.j2'), (BASE_MTIME, BASE_MTIME))
            # ... and the entrypoint template writes the meta header inside a block comment (text follows the header on its line)
            os.makedirs(os.path.join(root, 'tpl', 'block'), exist_ok=True)
            with open(os.path.join(REPO, 'data', 'cpp', 'template', 'block', 'entrypoint.j2')) as f:
                stock = f.read()
            assert stock.startswith('// {{ meta_header }}'), 'entrypoint template changed'
            with open(os.path.join(root, 'tpl', 'block', 'entrypoint.j2'), 'w') as f:
                f.write('/* {{ meta_header }} */' + stock[len('// {{ meta_header }}'):])
            os.utime(os.path.join(root, 'tpl', 'block', 'entrypoint.j2'), (BASE_MTIME, BASE_MTIME))
        ws.write_config(input_globs, output_dirs, cache_enabled)
        return ws

    def write_config(self, input_globs, output_dirs, cache_enabled=True, name='config.yml') -> None:
        di = '' if cache_enabled else 'di:\n  rogw.tranp.cache.cache.CacheSetting: mc.tranp.workspace.cache_disabled\n'
        tpl = '  - tpl\n' if os.path.isdir(os.path.join(self.root, 'tpl')) else ''
        grammar = 'gram/grammar.lark' if os.path.exists(os.path.join(self.root, 'gram', 'grammar.lark')) else 'data/grammar.lark'
        include_dirs = json.dumps(getattr(self, 'include_dirs', None) or self._read_include_dirs())
        text = CONFIG_TEMPLATE.format(include_dirs=include_dirs, grammar=grammar, tpl=tpl, globs='\n'.join(f'  - "{g}"' for g in input_globs), outs='\n'.join(f'  - {o}' for o in output_dirs), di=di)
        with open(os.path.join(self.root, name), 'w') as f:
            f.write(text)
        os.utime(os.path.join(self.root, name), (BASE_MTIME, BASE_MTIME))

    def _read_include_dirs(self):
        p = os.path.join(self.root, '.include_dirs.json')
        if os.path.exists(p):
            with open(p) as f:
                return json.load(f)
        return []

    def set_include_dirs(self, dirs) -> None:
        """env.transpiler.include_dirs of every configuration written from now on (kept in the workspace so that copies agree)."""
        with open(os.path.join(self.root, '.include_dirs.json'), 'w') as f:
            json.dump(list(dirs), f)
        os.utime(os.path.join(self.root, '.include_dirs.json'), (BASE_MTIME, BASE_MTIME))

    def write_source(self, rel: str, text: str, mtime: int) -> None:
        p = os.path.join(self.root, rel)
        os.makedirs(os.path.dirname(p), exist_ok=True)
        with open(p, 'w', newline='') as f:
            f.write(text)
        os.utime(p, (mtime, mtime))

    # ------------------------------------------------------------------ running the CLI

    def run(self, force=False, config='config.yml', timeout=120, audit_log=None, extra_args=()):
        """Returns ('ok',) | ('error', exception class, message, is a tranp error). The child is a fork of this process."""
        import rogw.tranp.bin.transpile as cli   # imported in the parent once; the child only constructs objects
        r, w = os.pipe()
        sys.stdout.flush()
        sys.stderr.flush()
        pid = os.fork()
        if pid == 0:
            code = 0
            try:
                os.close(r)
                os.chdir(self.root)
                devnull = os.open(os.devnull, os.O_WRONLY)
                os.dup2(devnull, 1)
                os.dup2(devnull, 2)
                if audit_log:
                    cache_base = os.path.join(os.path.realpath(self.root), '.cache')
                    log_fd = os.open(audit_log, os.O_WRONLY | os.O_CREAT | os.O_APPEND)

                    def hook(event, args):
                        if event == 'open' and args and isinstance(args[0], str):
                            p = os.path.realpath(args[0])
                            if p.startswith(cache_base):
                                os.write(log_fd, (os.path.relpath(p, os.path.realpath(self.root)) + '\n').encode())
                    sys.addaudithook(hook)
                argv = ['-c', config] + (['-f'] if force else []) + list(extra_args)
                try:
                    cli.App(cli.TranspileApp.definitions(cli.Args(argv))).run(cli.TranspileApp.run)
                    msg = json.dumps(['ok'])
                except BaseException as e:  # noqa  -- what bin/transpile.py prints through ErrorRender
                    from rogw.tranp.errors import Errors
                    msg = json.dumps(['error', type(e).__name__, str(e)[:300], isinstance(e, Errors.Error)])
                os.write(w, msg.encode())
            except BaseException:  # noqa
                code = 3
            finally:
                os._exit(code)
        os.close(w)
        data = b''
        while True:
            chunk = os.read(r, 65536)
            if not chunk:
                break
            data += chunk
        os.close(r)
        _, status = os.waitpid(pid, 0)
        if not data:
            return ('error', 'HarnessChildDied', f'status {status}')
        return tuple(json.loads(data.decode()))

    # ------------------------------------------------------------------ observing

    def files(self, with_mtime_for=('proj/', 'gram/', 'shared/')):
        """{relpath: (sha1, mtime or None)} for every regular file (the data symlink is not followed)."""
        out = {}
        for dp, dns, fns in os.walk(self.root):
            dns[:] = [d for d in dns if not os.path.islink(os.path.join(dp, d))]
            for fn in fns:
                p = os.path.join(dp, fn)
                rel = os.path.relpath(p, self.root)
                with open(p, 'rb') as f:
                    sha = hashlib.sha1(f.read()).hexdigest()
                mt = os.path.getmtime(p) if rel.startswith(tuple(with_mtime_for)) else None   # exact: sub-second differences are state
                out[rel] = (sha, mt)
        return out

    def digest(self) -> str:
        return hashlib.sha1(json.dumps(sorted(self.files().items())).encode()).hexdigest()

    def outputs(self):
        """{relpath: text} of every generated header."""
        out = {}
        for dp, dns, fns in os.walk(self.root):
            dns[:] = [d for d in dns if not os.path.islink(os.path.join(dp, d)) and d != '.cache']
            for fn in fns:
                if fn.endswith('.h'):
                    p = os.path.join(dp, fn)
                    with open(p, 'rb') as f:
                        out[os.path.relpath(p, self.root)] = f.read().decode('utf-8', 'replace')
        return out

    def output_stats(self):
        out = {}
        for rel in self.outputs():
            st = os.stat(os.path.join(self.root, rel))
            out[rel] = (st.st_ino, st.st_mtime_ns)
        return out

    def cache_files(self):
        base = os.path.join(self.root, '.cache', 'tranp')
        out = []
        for dp, _, fns in os.walk(base):
            for fn in fns:
                out.append(os.path.relpath(os.path.join(dp, fn), self.root))
        return sorted(out)

    def clear_cache(self) -> None:
        shutil.rmtree(os.path.join(self.root, '.cache'), ignore_errors=True)

    # ------------------------------------------------------------------ snapshots

    def copy_to(self, dst: str) -> 'Workspace':
        """Deep copy preserving mtimes (cache files are immutable once written, but truncation checks write into copies)."""
        shutil.copytree(self.root, dst, symlinks=True)
        return Workspace(dst)

    def remove(self) -> None:
        shutil.rmtree(self.root, ignore_errors=True)


def scratch_root(prefix: str) -> str:
    return tempfile.mkdtemp(prefix=prefix)
