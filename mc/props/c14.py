"""C14 -- exporting and re-importing the symbol table loses nothing.

Engine E2: every module of every generated module set (binding-form programs, generics nested to depth d,
signatures with more than ten attributes) and every real module: export with SymbolDB.to_json, JSON round
trip, unload the module's symbols, import_json into the table that still holds the other modules, then
compare symbol by symbol (deep type description, declaration, node, origin, via); import order never hits an
undefined key; a second import changes nothing; other modules' symbols are untouched.
"""
import json

from mc.core import pool
from mc.gen import corpus, pyprog
from mc.props import c08

ID = 'C14'
LEVEL = 'exploration'


def nested_type(depth: int) -> str:
    t = 'int'
    for i in range(depth):
        t = [f'list[{t}]', f'dict[str, {t}]', f'tuple[int, {t}]'][i % 3]
    return t


def generic_module(depth: int) -> str:
    lines = ['from collections.abc import Callable', '']
    for d in range(1, depth + 1):
        lines.append(f'V{d}: {nested_type(d)} = {value_of(d)}')
    params = ', '.join(f'p{i}: {["int", "str", "list[int]", "dict[str, int]"][i % 4]}' for i in range(13))
    lines += ['', f'def wide({params}) -> tuple[int, str, list[int]]:', "\treturn (p0, p1, p2)", '',
              'def higher(fn: Callable[[int, str], dict[str, list[int]]], n: int) -> dict[str, list[int]]:', "\treturn fn(n, 's')", '',
              'class Holder:', f'\titems: {nested_type(min(depth, 4))}', '', '\tdef __init__(self) -> None:', f'\t\tself.items = {value_of(min(depth, 4))}', '',
              f'\tdef get(self) -> {nested_type(min(depth, 4))}:', '\t\treturn self.items', '',
              'class Outer:', '\tclass Inner:', '\t\tv: int', '', '\t\tdef __init__(self, v: int) -> None:', '\t\t\tself.v = v', '',
              '\tdef make(self) -> \'Outer.Inner\':', '\t\treturn Outer.Inner(1)', '',
              'def opt(n: int) -> int | None:', '\tif n > 0:', '\t\treturn n', '\treturn None', '']
    return '\n'.join(lines)


def shared_type_module() -> str:
    """One symbol whose type tree holds the same type object several times: an alias used for several parameters, a
    variable used twice in a tuple, a generic class instantiated with itself."""
    return '''from typing import Generic, TypeAlias, TypeVar

T = TypeVar('T')

class Table(Generic[T]):
	rows: T

	def __init__(self, rows: T) -> None:
		self.rows = rows

Rows: TypeAlias = dict[str, list[int]]
Tab: TypeAlias = Table[Rows]

class Store:
	def merge(self, left: Tab, right: Tab) -> Tab:
		return left

	def both(self, rows: Rows, more: Rows, n: int) -> tuple[Rows, Rows]:
		return (rows, more)

def twice(t: Table[Rows]) -> tuple[Table[Rows], Table[Rows]]:
	pair = (t, t)
	return pair

def same(a: list[int], b: list[int]) -> dict[str, list[int]]:
	xs = a
	d = {'a': xs, 'b': xs}
	return d
'''


def forward_module() -> str:
    """User generic + forward references (quoted) to a class defined later, in every position x container."""
    lines = ['from typing import Generic, TypeVar', '', "T = TypeVar('T')", '',
             'class Early:', '\tv: int', '', '\tdef __init__(self, v: int) -> None:', '\t\tself.v = v', '',
             'class Ref(Generic[T]):', '\ttarget: T', '', '\tdef __init__(self, target: T) -> None:', '\t\tself.target = target', '', '\tdef get(self) -> T:', '\t\treturn self.target', '',
             'def use_early(r: Ref[Early]) -> Early:', '\treturn r.get()', '']
    containers = {'ref': 'Ref[{}]', 'list': 'list[{}]', 'dict': 'dict[str, {}]'}
    for cname, c in containers.items():
        for who in ('Late', 'Early'):
            t = c.format(who)
            lines += [f'class Holder_{cname}_{who}:', f"\tfield: '{t}'", '', f"\tdef __init__(self, field: '{t}') -> None:", '\t\tself.field = field', '',
                      f"\tdef ret(self) -> '{t}':", '\t\treturn self.field', '', f"\tdef param(self, p: '{t}') -> int:", '\t\treturn 1', '']
    lines += ['class Late:', '\tearly: Early', '', '\tdef __init__(self, early: Early) -> None:', '\t\tself.early = early', '']
    return '\n'.join(lines)


FORWARD_BEFORE_TYPEVAR = '''from typing import Generic, TypeVar

def make() -> 'Box[int]':
	return Box(1)

def unwrap(b: 'Box[str]') -> str:
	return b.get()

T = TypeVar('T')

class Box(Generic[T]):
	item: T

	def __init__(self, item: T) -> None:
		self.item = item

	def get(self) -> T:
		return self.item
'''
RECURSIVE_ALIAS = '''from typing import TypeAlias

Json: TypeAlias = dict[str, 'Json']

def depth(j: Json) -> int:
	return 1
'''
FORWARD_USER = '''from fwd_mod import Early, Late, Ref, Holder_ref_Late, Holder_list_Late

def find(ref: Ref[Late]) -> Early:
	late = ref.get()
	return late.early

def first(h: Holder_list_Late) -> Late:
	return h.ret()[0]

def via(h: Holder_ref_Late) -> Early:
	return h.ret().get().early
'''


# module-level variables of generic types (and of a user-defined generic class) imported by another module: the importer's
# table holds import symbols whose type arguments belong to the variable, not to the class it is an instance of
GENERIC_VARS_LIB = '''from typing import Generic, TypeVar

T = TypeVar('T')

class Box(Generic[T]):
	item: T

	def __init__(self, item: T) -> None:
		self.item = item

TABLE: dict[str, int] = {}
NAMES: list[str] = []
PAIR: tuple[int, str] = (1, 'a')
NESTED: dict[str, list[tuple[int, str]]] = {}
DEFAULT: Box[int] = Box(1)
BOXES: list[Box[str]] = []
'''
GENERIC_VARS_USER = '''from gv_lib import BOXES, DEFAULT, NAMES, NESTED, PAIR, TABLE, Box

def total() -> int:
	n = 0
	for key, value in TABLE.items():
		n += value
	return n + DEFAULT.item + PAIR[0]

def names() -> list[str]:
	out = NAMES
	for b in BOXES:
		out.append(b.item)
	for k in NESTED.keys():
		out.append(k)
	return out

def rebox() -> Box[int]:
	return Box(DEFAULT.item)
'''


def value_of(depth: int) -> str:
    v = '1'
    for i in range(depth):
        v = [f'[{v}]', "{'k': " + v + '}', f'(0, {v})'][i % 3]
    return v


def module_sets(quick: bool):
    depth = 3 if quick else 5
    sets = [('gen-funcs', c08.PROGRAMS['funcs']), ('gen-classes', c08.PROGRAMS['classes']), ('gen-modules', c08.PROGRAMS['modules']),
            ('gen-generics', {'gen_mod': generic_module(depth)}), ('gen-forward', {'fwd_mod': forward_module(), 'fwd_user': FORWARD_USER}),
            ('gen-shared-types', {'shared_mod': shared_type_module()}),
            ('gen-imported-generic-vars', {'gv_lib': GENERIC_VARS_LIB, 'gv_user': GENERIC_VARS_USER}),
            ('gen-forward-generic-before-typevar', {'fwd2_mod': FORWARD_BEFORE_TYPEVAR}), ('gen-recursive-alias', {'rec_mod': RECURSIVE_ALIAS}), ('gen-empty', {'empty_mod': '# nothing\n'})]
    feat = list(pyprog.feature_programs(True))[:1 if quick else 3]
    for i, p in enumerate(feat):
        sets.append((f'gen-feat{i}', {f'feat_mod{i}': p.source}))
    return sets


def describe_symbol(raw):
    from rogw.tranp.semantics.reflection.helper.naming import ClassShorthandNaming

    def ref(n):
        return f'{n.module_path}#{n.full_path}'
    try:
        desc = ClassShorthandNaming.domain_name_for_debug(raw)
    except Exception as e:  # noqa
        desc = f'<{type(e).__name__}>'
    out = {'desc': desc, 'class': type(raw).__name__}
    for field, getter in (('types', lambda: raw.types.fullyname), ('decl', lambda: ref(raw.decl)), ('node', lambda: ref(raw.node)), ('via', lambda: raw.via.types.fullyname),
                          ('attrs', lambda: [a.types.fullyname for a in raw.attrs])):
        try:
            out[field] = getter()
        except Exception as e:  # noqa
            out[field] = f'<{type(e).__name__}>'
    return out


def table_of(db, module=None):
    return {k: describe_symbol(v) for k, v in db.items(module)}


REV_A = '''class Cart:
	n: int

	def __init__(self, n: int) -> None:
		self.n = n

	def total(self) -> int:
		return self.n

class Price:
	v: float

	def __init__(self, v: float) -> None:
		self.v = v

	def get(self) -> float:
		return self.v

def make(n: int) -> Cart:
	return Cart(n)
'''
# same names, other positions and other member types
REV_B = '''class Price:
	v: str

	def __init__(self, v: str) -> None:
		self.v = v

	def get(self) -> str:
		return self.v

class Cart:
	n: int
	p: Price

	def __init__(self, n: int) -> None:
		self.n = n
		self.p = Price('x')

	def total(self) -> str:
		return self.p.get()

def make(n: int) -> Price:
	return Price('y')
'''
REV_C = '''def make(n: int) -> int:
	return n

class Cart:
	n: list[int]

	def __init__(self, n: int) -> None:
		self.n = [n]

	def total(self) -> list[int]:
		return self.n
'''
REVISIONS = [{'rev_mod': REV_A}, {'rev_mod': REV_B}, {'rev_mod': REV_C}, {'rev_mod': REV_A}]


def judge_set(task):
    """One module set; a set named 'gen-revisions...' is a history: the same session sees successive revisions of a
    module (sources replaced, module unloaded and loaded again) and round-trips every one of them."""
    name, sources, disk_modules = task
    if not name.startswith('gen-revisions'):
        return judge_revision(None, name, sources, disk_modules)
    from mc.tranp.session import Session
    order = [int(c) for c in name.split(':')[1]]
    s = Session(dict(REVISIONS[order[0]]))
    viol, stats = [], {'modules': 0, 'symbols': 0}
    for step, k in enumerate(order):
        if step:
            for m, src in REVISIONS[k].items():
                s.sources[m] = src
                s.modules.unload(m)
        v, st = judge_revision(s, f'{name} step {step} (revision {k})', dict(REVISIONS[k]), [], only=list(REVISIONS[k]))
        viol += [(sig, what, dict(rep, set=name)) for sig, what, rep in v]
        stats = {a: stats[a] + st[a] for a in stats}
        if v:
            break
    return viol, stats


def judge_revision(session, name, sources, disk_modules, only=None):
    from mc.tranp.session import Session
    from rogw.tranp.errors import Errors
    from rogw.tranp.semantics.reflection.serialization import IReflectionSerializer
    viol = []
    stats = {'modules': 0, 'symbols': 0}

    def add(sig, what, mod):
        viol.append((sig, f'{name}/{mod}: {what}', {'set': name, 'sources': sources, 'disk_modules': disk_modules, 'module': mod}))
    try:
        s = session if session is not None else Session(dict(sources))
        for m in list(sources) + list(disk_modules):
            s.load(m)
    except Errors.Error as e:
        if name.startswith('real:'):
            return [], stats   # a real module tranp itself rejects (fixtures written to contain errors) has no table to export
        return [(['load-failed', type(e).__name__], f'{name}: {type(e).__name__}: {str(e)[:200]}', {'set': name, 'sources': sources, 'disk_modules': disk_modules})], stats
    db = s.db
    ser = s.get(IReflectionSerializer)
    loaded = [m.path for m in s.modules.loaded()]
    if only:
        loaded = [m for m in loaded if m in only]
    for m in loaded:
        before = table_of(db, m)
        if not before:
            continue
        others_before = {k: v for k, v in table_of(db).items() if k not in before}
        try:
            data = json.loads(json.dumps(db.to_json(ser, m)))
        except Exception as e:  # noqa
            add(['export-raises', type(e).__name__] + ([name] if name.startswith('gen-') else []), f'{type(e).__name__}: {str(e)[:200]}', m)
            continue
        stats['modules'] += 1
        stats['symbols'] += len(before)
        if set(data.keys()) != set(before.keys()):
            add(['export-keys-differ'], f'exported {len(data)} keys for {len(before)} symbols: {sorted(set(data) ^ set(before))[:4]}', m)
        db.unload(m)
        if any(k in db for k in before):
            add(['unload-leaves-keys'], 'keys of the module remain after unload', m)
        try:
            db.import_json(ser, data)
        except Errors.SymbolNotDefined as e:
            add(['import-order', 'SymbolNotDefined'], f'import refers to a key that is not yet present: {str(e)[:160]}', m)
            # restore the table for the following modules
            s = Session(dict(sources))
            for mm in list(sources) + list(disk_modules):
                s.load(mm)
            db, ser = s.db, s.get(IReflectionSerializer)
            continue
        except Exception as e:  # noqa
            add(['import-raises', type(e).__name__], f'{type(e).__name__}: {str(e)[:200]}', m)
            s = Session(dict(sources))
            for mm in list(sources) + list(disk_modules):
                s.load(mm)
            db, ser = s.db, s.get(IReflectionSerializer)
            continue
        after = table_of(db, m)
        if not db.completed(m):
            add(['not-completed'], 'module does not count as completed after import', m)
        if list(after.keys()) != list(after.keys()) or set(after) != set(before):
            add(['import-keys-differ'], f'{sorted(set(after) ^ set(before))[:4]}', m)
        else:
            for k in before:
                if after[k] != before[k]:
                    field = [f for f in before[k] if after[k].get(f) != before[k][f]][0]
                    add(['symbol-differs', field, before[k]['class']], f'{k}: {field}: {before[k][field]!r} -> {after[k].get(field)!r}', m)
                    break
        try:
            db.import_json(ser, data)
        except Exception as e:  # noqa
            add(['second-import-raises', type(e).__name__], f'importing the same data a second time raises {type(e).__name__}: {str(e)[:160]}', m)
            s = Session(dict(sources))
            for mm in list(sources) + list(disk_modules):
                s.load(mm)
            db, ser = s.db, s.get(IReflectionSerializer)
            continue
        again = table_of(db, m)
        if again != after:
            add(['second-import-changes'], 'importing the same data twice changes a symbol', m)
        others_after = {k: v for k, v in table_of(db).items() if k not in before}
        if others_after != others_before:
            ks = [k for k in others_before if others_after.get(k) != others_before[k]][:3]
            add(['other-modules-touched'], f'{ks}', m)
    return viol, stats


def run(ctx):
    tasks = [(n, srcs, []) for n, srcs in module_sets(ctx.quick)]
    import itertools
    # histories: every sequence of 3 revisions out of 4 (repetition allowed between non-adjacent steps)
    seqs = [q for q in itertools.product(range(len(REVISIONS)), repeat=3) if q[0] != q[1] and q[1] != q[2]]
    tasks += [(f'gen-revisions:{"".join(map(str, q))}', {}, []) for q in seqs]
    reals = [m for m, fp, _ in corpus.real_modules() if 'fixture' in m or m.startswith('example')]
    if ctx.quick:
        reals = [m for m in reals if m.endswith(('fixture_db', 'fixture_reflections', 'example'))]
    for m in reals:
        tasks.append((f'real:{m}', {}, [m]))
    ctx.log(f'{len(tasks)} module sets')
    from mc.props.c01 import warm_parent
    warm_parent()
    res = pool.pmap(judge_set, tasks, workers=ctx.workers, rotate=ctx.seed)
    mods = syms = 0
    for viol, st in res:
        mods += st['modules']
        syms += st['symbols']
        ctx.merge(viol)
    return {
        'evaluations': syms,
        'distinct_nontrivial': syms,
        'rule': f'module sets {[t[0] for t in tasks]}; every loaded module of every set (project modules and the library modules they pull in) exported, unloaded, re-imported, imported again; every symbol compared (deep description, class, types, decl, node, via, attrs); generics nested to depth {3 if ctx.quick else 5}, a 13-parameter signature (two-digit attribute indices), nested classes, unions; symbols are distinct keys; revision histories: one session sees 3 successive revisions of a module (all sequences over 4 revisions with distinct neighbours; same names at other positions with other member types), each revision exported, unloaded, re-imported and compared',
        'samples': [generic_module(3)[:300], tasks[-1][0]],
        'modules_round_tripped': mods,
        'exhaustive': True,
        'bound': 'corpus as stated',
    }


def replay(ctx, data):
    viol, _ = judge_set((data['set'], data['sources'], data['disk_modules']))
    ctx.merge(viol)
