"""Small module graphs with source variants for the workspace explorations (C05, C06).

Variant families: 'T' changes something a dependent's output depends on (a return type, hence an inferred
declaration type downstream); 'S' changes only the module itself.
"""

A = {
    'v0': 'def fa() -> int:\n\treturn 1\n\nVA: int = 1\n',
    'vT': "def fa() -> str:\n\treturn 's'\n\nVA: int = 1\n",
    'vS': 'def fa() -> int:\n\treturn 2\n\nVA: int = 1\n',
}
B = {
    'v0': 'from proj.a import fa\n\nVB = fa()\n\ndef fb() -> int:\n\treturn 1\n',
    'vS': 'from proj.a import fa\n\nVB = fa()\n\ndef fb() -> int:\n\treturn 2\n',
}
C = {
    'v0': 'from proj.b import VB\n\nVC = VB\n',
    'vS': 'from proj.b import VB\n\nVC = VB\nVD: int = 0\n',
}
C2 = {   # second dependent of a (diamond)
    'v0': 'from proj.a import fa\n\nVC2 = fa()\n',
}
D = {
    'v0': 'from proj.b import VB\nfrom proj.c2 import VC2\n\nVE = VB\nVF = VC2\n',
}

WIDE = '\ndef wide(p0: int, p1: str, p2: float, p3: bool, p4: int, p5: str, p6: float, p7: bool, p8: int, p9: str, p10: int) -> float:\n\treturn p2\n'
USE_WIDE = "\nVW = wide(1, 'a', 1.5, True, 2, 'b', 2.5, False, 3, 'c', 4)\n"
A = {k: v + WIDE for k, v in A.items()}
B = {k: v.replace('from proj.a import fa', 'from proj.a import fa, wide') + USE_WIDE for k, v in B.items()}

GRAPHS = {
    'pair': {'proj/a.py': A, 'proj/b.py': B},
    'chain3': {'proj/a.py': A, 'proj/b.py': B, 'proj/c.py': C},
    'diamond4': {'proj/a.py': A, 'proj/b.py': B, 'proj/c2.py': C2, 'proj/d.py': D},
}
IMPORTS = {
    'pair': {'proj/b.py': ['proj/a.py']},
    'chain3': {'proj/b.py': ['proj/a.py'], 'proj/c.py': ['proj/b.py']},
    'diamond4': {'proj/b.py': ['proj/a.py'], 'proj/c2.py': ['proj/a.py'], 'proj/d.py': ['proj/b.py', 'proj/c2.py']},
}


def relation(graph: str, edited: str, stale: str) -> str:
    """'self' | 'direct' | 'transitive' | 'unrelated': how `stale` depends on `edited`."""
    if edited == stale:
        return 'self'
    imp = IMPORTS[graph]
    if edited in imp.get(stale, []):
        return 'direct'
    seen, todo = set(), list(imp.get(stale, []))
    while todo:
        x = todo.pop()
        if x in seen:
            continue
        seen.add(x)
        todo += imp.get(x, [])
    return 'transitive' if edited in seen else 'unrelated'


def variant_index(graph: str, rel: str, variant: str) -> int:
    return list(GRAPHS[graph][rel].keys()).index(variant)
