"""Check runner: dispatch, violation bookkeeping, known findings, replays, evidence, exit codes.

A property module (mc/props/cXX.py) exposes
    ID: str, LEVEL: str ('model_checking' | 'exploration' | ...)
    run(ctx) -> dict            coverage dict (measured counters); violations via ctx.violation(...)
    replay(ctx, data) -> None   re-executes one recorded case without the explorer; reports via ctx.violation
Exit codes: 0 held (possibly with KNOWN-FINDING lines), 1 VIOLATION, 2 harness error (never a verdict).
"""
from __future__ import annotations

import hashlib
import importlib
import json
import os
import sys
import time
import traceback

VERIF = os.path.dirname(os.path.dirname(os.path.dirname(os.path.abspath(__file__))))
REPO = os.environ.get('VERIF_REPO', '/repo')
COMPAT = os.path.join(VERIF, 'mc', 'compat')
FINDINGS_FILE = os.path.join(VERIF, 'known_findings.json')

COMMON_ASSUMPTIONS = [
    'Python 3.13 forward-compat shim /verif/mc/compat/sitecustomize.py (typing.TypeIs, property.__name__) is loaded in the harness; /repo untouched by it',
    'rogw.tranp is imported from the current working tree of /repo (sys.path[0]), bytecode writing disabled',
]


class HarnessError(Exception):
    """The harness itself misbehaved (generator rejected by the grammar, nondeterministic replay, ...)."""


class Violation:
    def __init__(self, signature, what, replay):
        self.signature = [str(s) for s in signature]
        self.what = what
        self.replay = replay

    @property
    def key(self) -> str:
        return json.dumps(self.signature, ensure_ascii=False)


class Ctx:
    def __init__(self, prop_id: str, tier: str, seed: int):
        self.prop_id = prop_id
        self.tier = tier
        self.seed = seed
        self.workers = int(os.environ.get('VERIF_WORKERS', os.cpu_count() or 4))
        self.violations: dict[str, Violation] = {}
        self.violation_hits: dict[str, int] = {}
        self.assumptions: list[str] = list(COMMON_ASSUMPTIONS)
        self.t0 = time.time()
        self.notes: list[str] = []

    @property
    def quick(self) -> bool:
        return self.tier == 'quick'

    def violation(self, signature, what: str, replay: dict) -> None:
        """Record one violating case. The first case per signature (simplest-first order) is kept."""
        v = Violation(signature, what, replay)
        self.violation_hits[v.key] = self.violation_hits.get(v.key, 0) + 1
        if v.key not in self.violations:
            self.violations[v.key] = v

    def merge(self, items) -> None:
        """Merge (signature, what, replay) triples coming back from workers (in deterministic order)."""
        for sig, what, rep in items:
            self.violation(sig, what, rep)

    def assume(self, text: str) -> None:
        if text not in self.assumptions:
            self.assumptions.append(text)

    def log(self, msg: str) -> None:
        print(f'[{self.prop_id} {time.time() - self.t0:6.1f}s] {msg}', file=sys.stderr, flush=True)


def load_findings() -> list[dict]:
    if not os.path.exists(FINDINGS_FILE):
        return []
    with open(FINDINGS_FILE) as f:
        return json.load(f).get('findings', [])


def setup_env() -> None:
    os.environ.setdefault('PYTHONHASHSEED', '0')
    os.environ['PYTHONDONTWRITEBYTECODE'] = '1'
    os.environ['ROG_WORKS_TRANP_VERIF'] = '1'
    sys.dont_write_bytecode = True
    pp = [COMPAT, REPO, VERIF]
    os.environ['PYTHONPATH'] = os.pathsep.join(pp + [p for p in os.environ.get('PYTHONPATH', '').split(os.pathsep) if p and p not in pp])
    for p in reversed(pp):
        if p in sys.path:
            sys.path.remove(p)
        sys.path.insert(0, p)
    if 'sitecustomize' not in sys.modules or not getattr(sys.modules['sitecustomize'], '_Finder', None):
        sys.modules.pop('sitecustomize', None)
        importlib.import_module('sitecustomize')


def write_replay(prop_id: str, v: Violation) -> str:
    d = os.path.join(VERIF, 'replays', prop_id)
    os.makedirs(d, exist_ok=True)
    sha = hashlib.sha1(v.key.encode()).hexdigest()[:12]
    path = os.path.join(d, f'{sha}.json')
    body = {'property': prop_id, 'signature': v.signature, 'what': v.what, 'replay': v.replay}
    text = json.dumps(body, indent=1, ensure_ascii=False, sort_keys=True, default=str)
    try:
        with open(path) as f:
            if f.read() == text:
                return path
    except OSError:
        pass
    with open(path, 'w') as f:
        f.write(text)
    return path


def report(ctx: Ctx, emit_known: bool = True) -> tuple[int, int, int]:
    """Print KNOWN-FINDING / VIOLATION lines. Returns (exit_code, n_known, n_new)."""
    findings = [f for f in load_findings() if f.get('property') == ctx.prop_id]
    open_sigs = {json.dumps([str(s) for s in f['signature']], ensure_ascii=False): f for f in findings if f.get('status') == 'open'}
    n_known = n_new = 0
    max_new = int(os.environ.get('VERIF_MAX_REPORT', '40'))
    for key, v in ctx.violations.items():
        if key not in open_sigs and n_new >= max_new:
            n_new += 1
            continue
        path = write_replay(ctx.prop_id, v)
        if key in open_sigs:
            n_known += 1
            if emit_known:
                print(f'KNOWN-FINDING: property={ctx.prop_id} {open_sigs[key].get("what_fails", v.what)} [signature={key} replay={path}]', flush=True)
        else:
            n_new += 1
            print(f'VIOLATION property={ctx.prop_id} replay={path}', flush=True)
            print(f'  signature={key}\n  what={v.what}', flush=True)
    if n_new > max_new:
        print(f'... and {n_new - max_new} further violation signatures (not written; raise VERIF_MAX_REPORT to see them)', flush=True)
    return (1 if n_new else 0), n_known, n_new


def write_evidence(ctx: Ctx, level: str, coverage: dict, n_known: int, n_new: int) -> str:
    path = os.path.join(VERIF, 'evidence', f'{ctx.prop_id}.json')
    os.makedirs(os.path.dirname(path), exist_ok=True)
    cov = dict(coverage)
    cov.setdefault('known_findings_reproduced', n_known)
    cov.setdefault('violation_signatures', sorted(ctx.violations.keys()))
    body = {
        'property_id': ctx.prop_id,
        'tier': ctx.tier,
        'seed': ctx.seed,
        'level': level,
        'coverage': cov,
        'assumptions': ctx.assumptions,
        'wall_s': round(time.time() - ctx.t0, 2),
        'violations': n_new,
        'notes': ctx.notes,
    }
    with open(path, 'w') as f:
        json.dump(body, f, indent=1, ensure_ascii=False, default=str)
        f.write('\n')
    return path


def main(argv: list[str]) -> int:
    import argparse
    ap = argparse.ArgumentParser(prog='check')
    ap.add_argument('prop')
    ap.add_argument('--tier', default=os.environ.get('VERIF_TIER', 'quick'), choices=['quick', 'thorough'])
    ap.add_argument('--replay', default=None)
    ap.add_argument('--seed', type=int, default=int(os.environ.get('VERIF_SEED', '0') or 0))
    args = ap.parse_args(argv)

    setup_env()
    prop_id = args.prop.upper()
    ctx = Ctx(prop_id, args.tier, args.seed)
    try:
        mod = importlib.import_module(f'mc.props.{prop_id.lower()}')
    except ModuleNotFoundError as e:
        print(f'harness error: no check for {prop_id}: {e}', file=sys.stderr)
        return 2

    try:
        if args.replay:
            with open(args.replay) as f:
                data = json.load(f)
            mod.replay(ctx, data['replay'])
            if ctx.violations:
                for key, v in ctx.violations.items():
                    print(f'VIOLATION property={prop_id} replay={os.path.abspath(args.replay)}')
                    print(f'  signature={key}\n  what={v.what}')
                return 1
            print(f'replay: no violation reproduced for {args.replay}')
            return 0

        coverage = mod.run(ctx)
        code, n_known, n_new = report(ctx)
        path = write_evidence(ctx, mod.LEVEL, coverage, n_known, n_new)
        ctx.log(f'done: violations={n_new} known={n_known} evidence={path}')
        return code
    except HarnessError as e:
        print(f'harness error in {prop_id}: {e}', file=sys.stderr)
        traceback.print_exc()
        return 2
    except Exception as e:  # a crash of the harness is never a verdict
        print(f'harness error in {prop_id}: {type(e).__name__}: {e}', file=sys.stderr)
        traceback.print_exc()
        return 2
