"""PyProg: typed mini-language programs for differential execution (C01) and type recording (C03).

Three layers: expression functions (from pyexpr trees), statement skeletons, feature schemas. Every
function is an entry point with a declared parameter list; `programs(tier)` yields Program objects
(module source + entries + class field table), batched so that one g++ invocation serves many functions.
"""
import itertools

from mc.gen import pyexpr
from mc.oracle.cpprun import Entry

INTS = [-2, 0, 1, 3]
BOOLS = [False, True]
P4 = [('a', 'int'), ('b', 'int'), ('p', 'bool'), ('q', 'bool')]
G4 = [INTS, INTS, BOOLS, BOOLS]
P2 = [('a', 'int'), ('b', 'int')]
G2 = [INTS, INTS]
P1 = [('a', 'int')]
G1 = [[-2, 0, 1, 2, 3, 5]]

def anno(kind: str) -> str:
    if kind.startswith('enum:'):
        return kind[5:]
    return {'dict[str,int]': 'dict[str, int]'}.get(kind, kind)


HEADER = 'from enum import Enum\nfrom collections.abc import Callable\n\nfrom rogw.tranp.compatible.python.embed import Embed\n\nXS: list[int] = [1, 3, 4]\n\n'


class Program:
    """A module: prelude (imports + helpers) and independent entry functions [(name, source, Entry)]."""
    def __init__(self, name, prelude, functions, fields=None, layer='expr', extra=None):
        self.name = name
        self.prelude = prelude
        self.functions = functions
        self.fields = fields or {}
        self.layer = layer
        self.extra = extra or {}   # other modules the program imports from: {module name: source}

    @property
    def source(self):
        return self.prelude + ''.join(src for _, src, _ in self.functions)

    @property
    def entries(self):
        return [e for _, _, e in self.functions]

    def only(self, names):
        return Program(self.name, self.prelude, [f for f in self.functions if f[0] in names], self.fields, self.layer, self.extra)

    def without(self, names):
        return Program(self.name, self.prelude, [f for f in self.functions if f[0] not in names], self.fields, self.layer, self.extra)

    def to_json(self):
        return {'name': self.name, 'prelude': self.prelude, 'functions': [[n, src, e.to_json()] for n, src, e in self.functions], 'fields': self.fields, 'layer': self.layer, 'extra': self.extra}

    @classmethod
    def from_json(cls, d):
        return cls(d['name'], d['prelude'], [(n, src, Entry.from_json(e)) for n, src, e in d['functions']], d.get('fields'), d.get('layer', 'expr'), d.get('extra'))


# ------------------------------------------------------------------------------------------ expression layer

def expression_programs(max_ops: int, both_renderings: bool, per_module: int = 90):
    funcs = []
    seen = set()
    for t in pyexpr.expression_trees(max_ops, rotations=(0,)):
        for mode in (('min', 'full', 'leaf') if both_renderings else ('min',)):
            text = pyexpr.render(t, mode == 'full', mode == 'leaf')
            if text in seen or (mode == 'leaf' and t[0] == 'leaf'):
                continue
            seen.add(text)
            rt = pyexpr.typ(t)
            # the minimal rendering goes through an un-annotated local (its C++ declaration type comes from inference),
            # the fully parenthesised one is returned directly, the one with redundant parentheses around every leaf
            # initialises an annotated local
            funcs.append((text, rt, '+'.join(pyexpr.op_classes(t)), pyexpr.n_ops(t), mode))
    for i in range(0, len(funcs), per_module):
        chunk = funcs[i:i + per_module]
        fns = []
        for j, (text, rt, tag, n, mode) in enumerate(chunk):
            name = f'e{i + j}'
            body = {'min': f'\tx = {text}\n\treturn x\n\n', 'full': f'\treturn {text}\n\n', 'leaf': f'\tx: {rt} = {text}\n\treturn x\n\n'}[mode]
            fns.append((name, f'def {name}(a: int, b: int, p: bool, q: bool) -> {rt}:\n' + body, Entry(name, P4, grid=G4, tag=f'expr:{tag}')))
        yield Program(f'expr{i // per_module}', HEADER, fns, layer='expr')


# ------------------------------------------------------------------------------------------ statement layer

def _fn(name, params, ret, body):
    ps = ', '.join(f'{n}: {t}' for n, t in params)
    return f'def {name}({ps}) -> {ret}:\n' + '\n'.join('\t' + ln for ln in body.strip('\n').split('\n')) + '\n\n'


AUG_OPS = ['+=', '-=', '*=', '%=', '&=', '|=', '^=', '<<=', '>>=']


def statement_functions(depth: int):
    """Yields (name, source, Entry). Bodies use an int accumulator so that every path is observable."""
    out = []

    def add(tag, body, params=None, grid=None, ret='int', needs=''):
        name = f's{len(out)}'
        params = params or P2
        src = _fn(name, [(n, anno(k)) for n, k in params], ret, body)
        out.append((name, src, Entry(name, params, grid=grid or G2, tag=f'stmt:{tag}'), needs))

    # if / elif / else nests
    add('if', 'x = 0\nif a < b:\n\tx = 1\nreturn x')
    add('if-else', 'x = 0\nif a < b:\n\tx = 1\nelse:\n\tx = 2\nreturn x')
    add('if-elif', 'x = 0\nif a < b:\n\tx = 1\nelif a == b:\n\tx = 2\nreturn x')
    add('if-elif-else', 'x = 0\nif a < b:\n\tx = 1\nelif a == b:\n\tx = 2\nelse:\n\tx = 3\nreturn x')
    add('if-elif-elif-else', 'x = 0\nif a < 0:\n\tx = 1\nelif a == 0:\n\tx = 2\nelif a == 1:\n\tx = 3\nelse:\n\tx = 4\nreturn x * 10 + b')
    add('if-nested-else-binding', 'x = 0\nif a > 0:\n\tif b > 0:\n\t\tx = 1\n\telse:\n\t\tx = 2\nreturn x')
    add('if-nested-outer-else', 'x = 0\nif a > 0:\n\tif b > 0:\n\t\tx = 1\nelse:\n\tx = 2\nreturn x')
    add('if-nested-elif-chain', 'x = 0\nif a > 0:\n\tif b > 0:\n\t\tx = 1\n\telif b == 0:\n\t\tx = 2\nelif a == 0:\n\tx = 3\nelse:\n\tx = 4\nreturn x')
    add('if-early-return', 'if a < b:\n\treturn 1\nif a == b:\n\treturn 2\nreturn 3')
    add('if-inline', 'x = 0\nif a < b: x = 1\nreturn x')
    # while
    add('while', 'x = 0\ni = 0\nwhile i < a:\n\tx += i\n\ti += 1\nreturn x')
    add('while-break', 'x = 0\ni = 0\nwhile i < 10:\n\tif i > a:\n\t\tbreak\n\tx += i\n\ti += 1\nreturn x')
    add('while-continue', 'x = 0\ni = 0\nwhile i < 6:\n\ti += 1\n\tif i % 2 == 0:\n\t\tcontinue\n\tx += i\nreturn x + a')
    add('while-nested-break', 'x = 0\ni = 0\nwhile i < 3:\n\tj = 0\n\twhile j < 3:\n\t\tif j > b:\n\t\t\tbreak\n\t\tx += 1\n\t\tj += 1\n\ti += 1\nreturn x')
    # for over range
    add('for-range1', 'x = 0\nfor i in range(a):\n\tx += i\nreturn x')
    add('for-range2', 'x = 0\nfor i in range(a, b):\n\tx += i\nreturn x')
    add('for-range2-lit', 'x = 0\nfor i in range(1, 4):\n\tx += i * a\nreturn x')
    add('for-range3', 'x = 0\nfor i in range(0, 7, 2):\n\tx += i + a\nreturn x')
    add('for-range-expr', 'x = 0\nfor i in range(a + 1, b + 3):\n\tx += i\nreturn x')
    add('for-range-break-continue', 'x = 0\nfor i in range(6):\n\tif i == a:\n\t\tcontinue\n\tif i > b + 2:\n\t\tbreak\n\tx += i\nreturn x')
    add('for-nested', 'x = 0\nfor i in range(3):\n\tfor j in range(i):\n\t\tx += i * j + a\nreturn x')
    # for over list / enumerate / dict views
    add('for-list', 'xs = [a, b, 3]\nx = 0\nfor v in xs:\n\tx = x * 2 + v\nreturn x')
    add('for-list-literal', 'x = 0\nfor v in [1, a, b]:\n\tx = x * 3 + v\nreturn x')
    add('for-enumerate', 'xs = [a, b, 3]\nx = 0\nfor i, v in enumerate(xs):\n\tx += i * v\nreturn x')
    add('for-dict-items', "d = {'k': a, 'l': b}\nx = 0\nfor k, v in d.items():\n\tx += v\nreturn x")
    add('for-dict-keys', "d = {1: a, 2: b}\nx = 0\nfor k in d.keys():\n\tx += k\nreturn x")
    add('for-dict-values', "d = {1: a, 2: b}\nx = 0\nfor v in d.values():\n\tx += v\nreturn x")
    add('for-dict-direct', "d = {1: a, 2: b}\nx = 0\nfor k in d:\n\tx += k\nreturn x")
    add('for-str-list', "x = ''\nfor s in ['a', 'b']:\n\tx = x + s\nreturn x", ret='str')
    # augmented assignment: every supported operator
    for op in AUG_OPS:
        add(f'aug{op}', f'x = a\nx {op} b\nreturn x')
        add(f'aug{op}-lit', f'x = 5\nx {op} 2\nreturn x + a')
    add('aug-str', "s = 'x'\ns += 'y'\nreturn s", ret='str')
    add('aug-index', 'xs = [a, b]\nxs[0] += 2\nreturn xs[0] + xs[1]')
    # destructuring
    add('destructure-tuple', 't = (a, b)\nx, y = t\nreturn x * 10 + y')
    add('destructure-swap', 'x = a\ny = b\nx, y = y, x\nreturn x * 10 + y')
    add('destructure-call', 'x, y = pair(a, b)\nreturn x - y')
    # declaration vs re-assignment in sibling / nested blocks
    add('reassign-sibling', 'if a > 0:\n\tx = 1\nelse:\n\tx = 2\nreturn x')
    add('reassign-nested', 'x = 0\nif a > 0:\n\tx = 1\n\tif b > 0:\n\t\tx = 2\nreturn x')
    add('declare-in-loop', 'x = 0\nfor i in range(3):\n\ty = i + a\n\tx += y\nreturn x')
    add('declare-after-blocks', 'x = 0\nif a > 0:\n\ty = 1\n\tx += y\nif b > 0:\n\ty = 2\n\tx += y\nreturn x')
    add('many-siblings', 'x = 0\n' + ''.join(f'if a > {i - 6}:\n\tv{i} = {i}\n\tx += v{i}\n' for i in range(12)) + 'return x')
    add('shadow-param', 'a = a + 1\nreturn a + b')
    # default arguments / helper calls
    add('default-arg', 'return dflt(a) + dflt(a, b)')
    add('helper-nested-call', 'return inc(inc(a)) + inc(b)')
    # closures and lambdas
    add('closure-param', 'def g(y: int) -> int:\n\treturn y * a\nreturn g(b) + g(2)')
    add('closure-local', 'k = a + 1\ndef g(y: int) -> int:\n\treturn y + k\nreturn g(b)')
    add('closure-nested', 'def g(y: int) -> int:\n\tdef h(z: int) -> int:\n\t\treturn z + y + a\n\treturn h(1)\nreturn g(b)')
    add('lambda-anno', 'f: Callable[[int], int] = lambda x: x + a\nreturn f(b)')
    add('lambda-anno-2', 'f: Callable[[int, int], int] = lambda x, y: x * y + a\nreturn f(b, 2)')
    add('lambda-arg', 'return apply(lambda x: x * 2 + a, b)')
    add('lambda-iife', 'return (lambda x: x + 1)(a) + b')
    # lambdas that are not the first argument, for callables whose parameter types differ from each other and from the result
    add('lambda-second-arg', 'return apply_at(b, lambda x: x * 2 + a)', needs='callbacks')
    add('lambda-predicate', 'ys = [a, b, a + b, 3]\nreturn count_if(ys, lambda v: v > 2)', needs='callbacks')
    add('lambda-two-callbacks', 'ys = map_ints([1, 2, 3], lambda v: v * a)\nreturn count_if(ys, lambda v: v > b)', needs='callbacks')
    add('lambda-mixed-params', 'w = weigh(2.5, lambda x, k: x * k, a)\nreturn int(w * 2.0) + b', needs='callbacks')
    add('lambda-str-param', 'return measure(a, \'abc\', lambda s, n: len(s) + n) + b', needs='callbacks')
    add('lambda-returned', 'f = adder(a)\nreturn f(b)')
    # try / raise / except
    add('try-raise-in-body', 'try:\n\tif a > 0:\n\t\traise RuntimeError(\'x\')\n\treturn 1\nexcept RuntimeError as e:\n\treturn 2')
    add('try-raise-in-helper', 'try:\n\treturn thrower(a)\nexcept RuntimeError as e:\n\treturn -1')
    add('try-no-raise', 'x = 0\ntry:\n\tx = a + b\nexcept RuntimeError as e:\n\tx = -1\nreturn x')
    add('try-custom', 'try:\n\tif a > 0:\n\t\traise MyErr(\'m\')\n\treturn 1\nexcept MyErr as e:\n\treturn 2', needs='myerr')
    add('try-base-catches-derived', 'try:\n\tif a > 0:\n\t\traise MyErr(\'m\')\n\treturn 1\nexcept Exception as e:\n\treturn 3', needs='myerr')
    add('try-two-handlers', 'try:\n\tif a > 0:\n\t\traise MyErr(\'m\')\n\tif b > 0:\n\t\traise RuntimeError(\'r\')\n\treturn 1\nexcept MyErr as e:\n\treturn 2\nexcept RuntimeError as e:\n\treturn 3', needs='myerr')
    add('raise-uncaught', 'if a > b:\n\traise RuntimeError(\'x\')\nreturn a')
    add('raise-non-matching', 'try:\n\tif a > 0:\n\t\traise RuntimeError(\'r\')\n\treturn 1\nexcept MyErr as e:\n\treturn 2', needs='myerr')
    add('try-in-loop', 'x = 0\nfor i in range(3):\n\ttry:\n\t\tif i == a:\n\t\t\traise RuntimeError(\'x\')\n\t\tx += 1\n\texcept RuntimeError as e:\n\t\tx += 10\nreturn x')
    if depth >= 2:
        # every compound inside every compound (depth 2), accumulator based
        inner = {
            'if': 'if {c}:\n\tx += 1\nelse:\n\tx += 2',
            'while': 'k = 0\nwhile k < 2:\n\tx += k + 1\n\tk += 1',
            'for': 'for j in range(2):\n\tx += j + 3',
            'try': 'try:\n\tif {c}:\n\t\traise RuntimeError(\'x\')\n\tx += 5\nexcept RuntimeError as e:\n\tx += 7',
        }
        outer = {
            'if': 'if a > 0:\n{B}\nelse:\n\tx += 100',
            'elif': 'if a > 1:\n\tx += 50\nelif a > 0:\n{B}\nelse:\n\tx += 100',
            'while': 'i = 0\nwhile i < 2:\n{B}\n\ti += 1',
            'for': 'for i in range(2):\n{B}',
            'try': 'try:\n{B}\nexcept RuntimeError as e:\n\tx += 1000',
        }
        for (on, o), (inn, ib) in itertools.product(outer.items(), inner.items()):
            body = '\n'.join('\t' + ln for ln in ib.format(c='b > 0').split('\n'))
            add(f'nest:{on}>{inn}', 'x = 0\n' + o.format(B=body) + '\nreturn x')
    return out


MYERR_HELPER = '''
class MyErr(Exception):
	pass

'''

STMT_HELPERS = '''
def pair(a: int, b: int) -> tuple[int, int]:
	return (a + 1, b * 2)

def dflt(a: int, b: int = 7) -> int:
	return a * 10 + b

def inc(a: int) -> int:
	return a + 1

def apply(f: Callable[[int], int], v: int) -> int:
	return f(v)

def adder(n: int) -> Callable[[int], int]:
	return lambda x: x + n

def thrower(a: int) -> int:
	if a > 0:
		raise RuntimeError('t')
	return a

'''


def _group_programs(prefix, base_prelude, fns, per_module, fields, layer):
    """Functions needing an extra (risky) helper go to their own small modules so that a defect there stays local."""
    plain = [(n, s, e) for n, s, e, needs in fns if not needs]
    for i in range(0, len(plain), per_module):
        yield Program(f'{prefix}{i // per_module}', base_prelude, plain[i:i + per_module], fields, layer)
    for key in sorted({needs for _, _, _, needs in fns if needs}):
        grp = [(n, s, e) for n, s, e, needs in fns if needs == key]
        yield Program(f'{prefix}-{key}', base_prelude + EXTRA_HELPERS[key], grp, fields, layer)


def statement_programs(depth: int, per_module: int = 45):
    yield from _group_programs('stmt', HEADER + STMT_HELPERS, statement_functions(depth), per_module, None, 'stmt')


# ------------------------------------------------------------------------------------------ feature schemas

def feature_functions(full: bool):
    out = []

    def add(tag, body, params=None, grid=None, ret='int', vectors=None, needs=''):
        name = f'f{len(out)}'
        params = params or P1
        src = _fn(name, [(n, anno(k)) for n, k in params], ret, body)
        out.append((name, src, Entry(name, params, vectors=vectors, grid=None if vectors else (grid or G1), tag=f'feat:{tag}'), needs))

    # a parameter re-assigned at function level and inside every kind of nested block (no new declaration may appear)
    for where, body in [('function', 'a = a + 1\nreturn a'), ('if', 'if a < 1:\n\ta = 1\nreturn a'), ('if-else', 'if a < 0:\n\ta = 0\nelse:\n\ta = a * 2\nreturn a'),
                        ('for', 'for i in range(3):\n\ta = a + i\nreturn a'), ('while', 't = 0\nwhile t < 2:\n\ta = 7\n\tt += 1\nreturn a'),
                        ('nested', 'if a < 5:\n\tfor i in range(2):\n\t\ta = 9\nreturn a'), ('try', 'try:\n\ta = 4\nexcept Exception as e:\n\ta = 5\nreturn a'),
                        ('clamp', 'lo = 0\nhi = 3\nif a < lo:\n\ta = lo\nif a > hi:\n\ta = hi\nreturn a')]:
        add(f'param-reassign:{where}', body)
    # the history of one local name: assigned in an earlier nested block, at function level, in a later nested block (every order
    # of the three places; no assignment after the first may become a new declaration)
    places = {'early-for': 'for i in range(2):\n\t{v} = i + 10', 'early-if': 'if a > 0:\n\t{v} = 20', 'level': '{v} = 30',
              'late-for': 'for j in range(3):\n\tif j % 2 == 0:\n\t\t{v} = j + 40', 'late-while': 'k = 0\nwhile k < 2:\n\t{v} = k * 3 + 50\n\tk += 1', 'late-if': 'if a < 3:\n\t{v} = 60'}
    for first in ('early-for', 'early-if', 'level'):
        for second in ('level', 'early-if'):
            for third in ('late-for', 'late-while', 'late-if', 'level'):
                if first == second:
                    continue
                body = '\n'.join(places[x].format(v='found') for x in (first, second, third)) + '\nreturn found'
                if first != 'level' and second != 'level':
                    body = 'found = 0\n' + body   # keep the programs inside the subset (no use of a name bound only in branches)
                add(f'name-history:{first},{second},{third}', body)
    # mixed int/float chains through an inferred declaration (the declared type decides whether the value is truncated)
    import itertools as _it
    for ops in _it.product(['+', '-', '*'], repeat=2):
        for operands in [('a', 'g', 'a'), ('a', 'a', 'g'), ('g', 'a', 'a'), ('a', '1.5', 'a'), ('2', 'g', 'a')]:
            expr = f'{operands[0]} {ops[0]} {operands[1]} {ops[1]} {operands[2]}'
            add(f'mixed-chain:{ops[0]}{ops[1]}', f'g = a * 0.5 + 0.25\nx = {expr}\nreturn x', ret='float', grid=[[-2, 0, 1, 3]])
    # declaration forms x initialiser kinds
    inits = [('list-lit', 'list[int]', '[a, 2]'), ('list-mul', 'list[int]', '[7] * a'), ('list-mul-zero', 'list[int]', '[0] * a'), ('list-mul-var', 'list[int]', '[a] * 2'),
             ('list-comp', 'list[int]', '[i * 2 for i in range(a)]'), ('list-copy', 'list[int]', 'XS.copy()'), ('dict-lit', 'dict[str, int]', "{'k': a}"),
             ('ctor', 'Pt', 'Pt(a, 1)'), ('ctor-nested-arg', 'Pt', 'Pt(fsum(a), Pt(2, 3).x)'), ('str-lit', 'str', "'ab'"), ('int-call', 'int', 'fsum(a)'), ('float-div', 'float', 'a / 2'), ('bool-cmp', 'bool', 'a > 1')]
    forms = [('inferred', 'x = {i}\nreturn x'), ('annotated', 'x: {t} = {i}\nreturn x'), ('direct', 'return {i}'), ('annotated-reassigned', 'x: {t} = {i}\nx = {i}\nreturn x'),
             ('annotated-in-branch', 'if a >= 0:\n\tx: {t} = {i}\n\treturn x\nreturn {i}')]
    for iname, ityp, init in inits:
        for fname, form in forms:
            add(f'decl-{fname}:{iname}', form.format(i=init, t=ityp), ret=ityp, grid=[[0, 1, 2, 3]])
    # classes
    add('class-field-method', 'p = Pt(a, 2)\np.move(3)\nreturn p.x * 10 + p.y')
    add('class-return-object', 'return Pt(a, a + 1)', ret='Pt')
    add('class-property', 'p = Pt(a, 2)\nreturn p.norm1')
    add('class-classmethod', 'p = Pt.origin()\nreturn p.x + p.y + a')
    add('class-ctor-statements', 'c = Ctr(a)\nreturn c.n * 100 + c.m', needs='ctr')
    add('class-ctor-param-reassigned', 'c = Ctr2(a)\nreturn c.n', needs='ctr2')
    add('class-inherit-override', 'b = Base(a)\nd = Derived(a)\nreturn b.calc() * 100 + d.calc()')
    add('class-inherit-super-init', 'd = Derived(a)\nreturn d.v + d.extra')
    add('class-inherited-method', 'd = Derived(a)\nreturn d.base_only()')
    add('class-value-semantics', 'p = Pt(a, 0)\nq = Pt(p.x, p.y)\nq.move(5)\nreturn p.x * 10 + q.x')
    add('class-method-chain', 'return Pt(a, 1).moved(2).moved(3).x')
    add('class-list-of-objects', 'ps = [Pt(a, 1), Pt(2, a)]\nx = 0\nfor p in ps:\n\tx += p.x * 2 + p.y\nreturn x')
    # enums
    add('enum-compare', 'if c == Col.R:\n\treturn 1\nelif c == Col.G:\n\treturn 2\nreturn 3', params=[('c', 'enum:Col')], vectors=[('R',), ('G',), ('B',)])
    add('enum-value', 'return Col.G.value + a')
    add('enum-return', 'if a > 0:\n\treturn Col.B\nreturn Col.R', ret='Col')
    add('enum-dict-key', "d = {Col.R: 1, Col.G: a}\nreturn d[Col.G]")
    add('enum-str-value', 'return Names.A.value', ret='str')
    # member values written as constant expressions (folded by the transpiler when .value is read)
    add('enum-const-chain-sub', 'return Calc.Mid.value + a', needs='calc')
    add('enum-const-chain-shift', 'return Calc.Sh.value + Calc.Mix.value + a', needs='calc')
    add('enum-const-chain-div', 'return Calc.Mod.value * 100 + Calc.Par.value + a', needs='calc')
    add('enum-name', 'return Col.G.name', ret='str')
    # list literals / methods / indexing / slices
    add('list-index', 'xs = [a, 2, 3]\nreturn xs[0] * 100 + xs[1] * 10 + xs[2]')
    add('list-len', 'xs = [a, 2, 3]\nreturn len(xs)')
    add('list-append-pop', 'xs = [1]\nxs.append(a)\nxs.append(7)\ny = xs.pop()\nreturn y * 100 + len(xs) * 10 + xs[1]')
    add('list-pop-index', 'xs = [1, a, 3]\ny = xs.pop(0)\nreturn y * 10 + xs[0]')
    add('list-insert', 'xs = [1, 3]\nxs.insert(1, a)\nreturn xs', ret='list[int]')
    add('list-extend', 'xs = [1]\nxs.extend([a, 3])\nreturn xs', ret='list[int]')
    add('list-remove', 'xs = [1, a, 9]\nxs.remove(9)\nreturn xs', ret='list[int]')
    add('list-reverse', 'xs = [1, a, 9]\nxs.reverse()\nreturn xs', ret='list[int]')
    add('list-sort', 'xs = [5, a, 2]\nxs.sort()\nreturn xs', ret='list[int]')
    add('list-clear', 'xs = [1, a]\nxs.clear()\nreturn len(xs)')
    add('list-copy', 'xs = [1, a]\nys = xs.copy()\nys.append(3)\nreturn len(xs) * 10 + len(ys)')
    add('list-index-of', 'xs = [4, 5, 6]\nreturn xs.index(5) + a')
    add('list-contains', 'xs = [1, 2, 3]\nif a in xs:\n\treturn 1\nreturn 0')
    add('list-not-contains', 'xs = [1, 2, 3]\nif a not in xs:\n\treturn 1\nreturn 0')
    add('list-mul', 'xs = [a] * 3\nreturn xs', ret='list[int]')
    add('list-nested', 'xs = [[1, a], [3]]\nreturn xs[0][1] + xs[1][0]')
    add('list-slice-begin-end', 'xs = [1, 2, 3, 4, 5]\nreturn xs[1:3]', ret='list[int]')
    add('list-slice-begin', 'xs = [1, 2, 3, 4, 5]\nreturn xs[2:]', ret='list[int]')
    add('list-slice-end', 'xs = [1, 2, 3, 4, 5]\nreturn xs[:2]', ret='list[int]')
    add('list-slice-var', 'xs = [1, 2, 3, 4, 5]\nreturn xs[1:a + 1]', ret='list[int]', grid=[[0, 1, 2, 3]])
    add('list-copy-param', 'ys = xs.copy()\nys.append(1)\nreturn ys', params=[('xs', 'list[int]')], vectors=[([],), ([2, 3],)], ret='list[int]')
    add('list-sum-param', 'x = 0\nfor v in xs:\n\tx += v\nreturn x', params=[('xs', 'list[int]')], vectors=[([],), ([2, 3],), ([5],)])
    # dict
    add('dict-index', "d = {'a': a, 'b': 2}\nreturn d['a'] * 10 + d['b']")
    add('dict-set', "d = {'a': 1}\nd['b'] = a\nd['a'] = 5\nreturn d", ret='dict[str, int]')
    add('dict-len', "d = {'a': 1, 'b': a}\nreturn len(d)")
    add('dict-contains', "d = {1: 2, 3: 4}\nif a in d:\n\treturn d[a]\nreturn -1")
    add('dict-not-contains', "d = {1: 2, 3: 4}\nif a not in d:\n\treturn 1\nreturn 0")
    add('dict-get-default', "d = {1: 2, 3: 4}\nreturn d.get(a, 9)")
    add('dict-get-operand', "d = {1: 2, 3: 4}\nreturn (d.get(a, 0)) + 10")
    add('dict-get-operand-noparen', "d = {1: 2, 3: 4}\nreturn d.get(a, 0) + 10")
    add('dict-pop', "d = {1: 2, 3: 4}\nv = d.pop(1)\nreturn v * 10 + len(d) + a")
    add('dict-keys-list', "d = {1: 2, 3: a}\nks = list(d.keys())\nreturn len(ks)")
    add('dict-values-sum', "d = {1: 2, 3: a}\nx = 0\nfor v in d.values():\n\tx += v\nreturn x")
    add('dict-clear', "d = {1: a}\nd.clear()\nreturn len(d)")
    add('dict-copy', "d = {1: a}\ne = d.copy()\ne[2] = 3\nreturn len(d) * 10 + len(e)")
    add('dict-update', "d = {1: a}\nd.update({2: 3, 1: 0})\nreturn d", ret='dict[int, int]')
    add('dict-param', "return d['k'] + len(d)", params=[('d', 'dict[str,int]')], vectors=[({'k': 1},), ({'k': 2, 'j': 3},)])
    add('dict-nested', "d = {'a': [1, a], 'b': [3]}\nreturn d['a'][1] + d['b'][0]")
    # tuple
    add('tuple-literal', "return (a, 's')", ret='tuple[int, str]')
    add('tuple-index', 't = (a, 5)\nreturn t[0] * 10 + t[1]')
    add('tuple-nested', "t = (a, (2, 's'))\nreturn t[1][0] + t[0]")
    # comprehensions
    add('listcomp-range', 'return [i * a for i in range(4)]', ret='list[int]')
    add('listcomp-list-if', 'xs = [1, 2, 3, 4]\nreturn [x + a for x in xs if x % 2 == 0]', ret='list[int]')
    add('listcomp-enumerate', 'xs = [5, 6]\nreturn [i * 10 + x + a for i, x in enumerate(xs)]', ret='list[int]')
    add('listcomp-dict-items', "d = {1: 2, 3: 4}\nreturn [k * v + a for k, v in d.items()]", ret='list[int]')
    add('listcomp-dict-keys', "d = {1: 2, 3: 4}\nreturn [k + a for k in d.keys()]", ret='list[int]')
    add('listcomp-dict-values', "d = {1: 2, 3: 4}\nreturn [v + a for v in d.values()]", ret='list[int]')
    add('listcomp-nested-expr', 'return [(i + 1) * (a - i) for i in range(3)]', ret='list[int]')
    add('dictcomp-range', 'return {i: i * a for i in range(3)}', ret='dict[int, int]')
    add('dictcomp-list-if', 'xs = [1, 2, 3]\nreturn {x: x + a for x in xs if x > 1}', ret='dict[int, int]')
    add('dictcomp-items', "d = {1: 2, 3: 4}\nreturn {k: v + a for k, v in d.items()}", ret='dict[int, int]')
    # str
    add('str-concat', "return 'x' + s + 'y'", params=[('s', 'str')], vectors=[('',), ('ab',)], ret='str')
    add('str-len', 'return len(s)', params=[('s', 'str')], vectors=[('',), ('abc',)])
    add('str-eq', "if s == 'ab':\n\treturn 1\nreturn 0", params=[('s', 'str')], vectors=[('',), ('ab',)])
    add('str-split', "return 'a,b,c'.split(',')", ret='list[str]', grid=[[0]])
    add('str-split-param', "return s.split('-')", params=[('s', 'str')], vectors=[('a-b',), ('x',)], ret='list[str]')
    add('str-join', "return ','.join(['a', 'b', s])", params=[('s', 'str')], vectors=[('c',)], ret='str')
    add('str-replace', "return s.replace('a', 'xy')", params=[('s', 'str')], vectors=[('banana',), ('',)], ret='str')
    add('str-strip', "return s.strip(' ') + '|' + s.lstrip(' ') + '|' + s.rstrip(' ')", params=[('s', 'str')], vectors=[('  a b  ',), ('x',)], ret='str')
    add('str-find', "return s.find('b') * 10 + s.rfind('b')", params=[('s', 'str')], vectors=[('abcb',), ('xyz',)])
    add('str-count', "return s.count('a')", params=[('s', 'str')], vectors=[('banana',), ('',)])
    add('str-startswith', "if s.startswith('ab'):\n\treturn 1\nif s.endswith('yz'):\n\treturn 2\nreturn 0", params=[('s', 'str')], vectors=[('abc',), ('xyz',), ('q',)])
    add('str-upper-lower', "return s.upper() + s.lower()", params=[('s', 'str')], vectors=[('aB',)], ret='str')
    add('str-index', "return s[0] + s[2]", params=[('s', 'str')], vectors=[('abc',)], ret='str')
    add('str-slice', "return s[1:3] + '|' + s[2:] + '|' + s[:1]", params=[('s', 'str')], vectors=[('abcdef',)], ret='str')
    add('str-in', "if 'b' in s:\n\treturn 1\nreturn 0", params=[('s', 'str')], vectors=[('abc',), ('xyz',)])
    add('str-mul', "return s * 3", params=[('s', 'str')], vectors=[('ab',)], ret='str')
    add('str-compare-chars', "x = 0\nfor c in ['a', 'b']:\n\tif c == s:\n\t\tx += 1\nreturn x", params=[('s', 'str')], vectors=[('a',), ('z',)])
    # casts
    add('cast-int-float', 'return int(x)', params=[('x', 'float')], vectors=[(1.5,), (2.0,), (0.25,)])
    add('cast-float-int', 'return float(a) + 0.5', ret='float')
    add('cast-str-int', 'return str(a)', ret='str')
    add('cast-int-str', "return int(s) + 1", params=[('s', 'str')], vectors=[('12',), ('0',)])
    add('cast-float-str', "return float(s) * 2.0", params=[('s', 'str')], vectors=[('1.5',), ('2',)], ret='float')
    add('cast-bool-int', 'if bool(a):\n\treturn 1\nreturn 0')
    add('cast-int-bool', 'return int(p) + 1', params=[('p', 'bool')], vectors=[(False,), (True,)])
    # builtins
    add('min-max', 'return min(a, 2) * 10 + max(a, 2)')
    add('abs', 'return abs(a) + abs(a - 3)')
    add('len-literal', "return len([a, 2]) + len('abc')")
    # floats
    add('float-arith', 'return x * 2.0 + 0.5 - x / 4.0', params=[('x', 'float')], vectors=[(1.5,), (-2.0,), (0.0,)], ret='float')
    add('float-int-mix', 'return x * a + 1', params=[('x', 'float'), ('a', 'int')], vectors=[(1.5, 2), (0.5, -3)], ret='float')
    add('float-div', 'return x / 2.0', params=[('x', 'float')], vectors=[(3.0,), (1.0,)], ret='float')
    add('float-compare', 'if x < 1.5:\n\treturn 1\nreturn 0', params=[('x', 'float')], vectors=[(1.0,), (1.5,), (2.0,)])
    add('int-float-true-div', 'return float(a) / 2.0', ret='float')
    # ternary / chained in statements
    add('ternary-stmt', 'x = 1 if a > 0 else 2\nreturn x')
    add('ternary-nested', 'return 1 if a > 1 else 2 if a > 0 else 3')
    add('ternary-str', "return 'pos' if a > 0 else 'neg'", ret='str')
    add('module-const', 'return MODULE_CONST + a')
    add('recursion', 'if a <= 0:\n\treturn 0\nreturn a + fsum(a - 1)')
    return out


FEATURE_HELPERS = '''
MODULE_CONST: int = 42

class Col(Enum):
	R = 0
	G = 1
	B = 2

class Names(Enum):
	A = 'a'
	B = 'b'

class Pt:
	x: int
	y: int

	def __init__(self, x: int, y: int) -> None:
		self.x = x
		self.y = y

	def move(self, d: int) -> None:
		self.x += d
		self.y -= d

	def moved(self, d: int) -> 'Pt':
		return Pt(self.x + d, self.y)

	@property
	def norm1(self) -> int:
		return abs(self.x) + abs(self.y)

	@classmethod
	def origin(cls) -> 'Pt':
		return cls(0, 0)

class Base:
	v: int

	def __init__(self, v: int) -> None:
		self.v = v

	@Embed.allow_override
	def calc(self) -> int:
		return self.v + 1

	def base_only(self) -> int:
		return self.calc() * 2

class Derived(Base):
	extra: int

	def __init__(self, v: int) -> None:
		super().__init__(v * 2)
		self.extra = v

	def calc(self) -> int:
		return self.v + 100

def fsum(a: int) -> int:
	if a <= 0:
		return 0
	return a + fsum(a - 1)

'''
CTR_HELPER = '''
class Ctr:
	n: int
	m: int

	def __init__(self, n: int) -> None:
		k = n * 2
		self.n = k
		k = k + 1
		self.m = k

'''
CTR2_HELPER = '''
class Ctr2:
	n: int

	def __init__(self, n: int) -> None:
		n = n + 1
		self.n = n

'''
CALC_HELPER = '''
class Calc(Enum):
	Mid = 10 - 3 - 2
	Sh = 64 >> 2 >> 1
	Mix = 100 - 30 + 5
	Mod = 100 % 7 % 3
	Par = 2 * (3 + 4) - 1

'''
CALLBACK_HELPERS = '''
def apply_at(v: int, f: Callable[[int], int]) -> int:
	return f(v)

def count_if(xs: list[int], pred: Callable[[int], bool]) -> int:
	n = 0
	for x in xs:
		if pred(x):
			n += 1
	return n

def map_ints(xs: list[int], fn: Callable[[int], int]) -> list[int]:
	return [fn(x) for x in xs]

def weigh(w: float, fn: Callable[[float, int], float], k: int) -> float:
	return fn(w, k)

def measure(n: int, s: str, fn: Callable[[str, int], int]) -> int:
	return fn(s, n)

'''
EXTRA_HELPERS = {'myerr': MYERR_HELPER, 'ctr': CTR_HELPER, 'ctr2': CTR2_HELPER, 'callbacks': CALLBACK_HELPERS, 'calc': CALC_HELPER}
FEATURE_FIELDS = {'Pt': ['x', 'y'], 'Ctr': ['n', 'm'], 'Ctr2': ['n'], 'Base': ['v'], 'Derived': ['v', 'extra']}


def feature_programs(full: bool, per_module: int = 40):
    yield from _group_programs('feat', HEADER + FEATURE_HELPERS, feature_functions(full), per_module, FEATURE_FIELDS, 'feat')


def programs(quick: bool):
    yield from statement_programs(1 if quick else 2)
    yield from feature_programs(not quick)
    yield from expression_programs(2 if quick else 3, both_renderings=True)
