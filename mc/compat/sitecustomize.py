"""Forward-compat shim: lets rog-works/tranp (which targets Python 3.13) run on the pinned 3.12.

Harness side only -- /repo is never modified by this. Two 3.13 features are supplied:
  * typing.TypeIs                       (PEP 742, taken from typing_extensions)
  * property.__name__ == fget.__name__  (3.13 behaviour), for classes of
    rogw.tranp.implements.syntax.tranp.rule, which evaluates `Rules.keywords.__name__`.
"""
import importlib.abc
import importlib.machinery
import sys
import typing

if not hasattr(typing, 'TypeIs'):
	try:
		import typing_extensions
		typing.TypeIs = typing_extensions.TypeIs  # type: ignore[attr-defined]
	except Exception:  # pragma: no cover
		pass


class _NamedProperty(property):
	@property
	def __name__(self):  # type: ignore[override]
		return self.fget.__name__  # type: ignore[union-attr]


_TARGETS = {'rogw.tranp.implements.syntax.tranp.rule'}


def _patch_module(module):
	for obj in list(vars(module).values()):
		if isinstance(obj, type) and obj.__module__ == module.__name__:
			for key, val in list(vars(obj).items()):
				if type(val) is property:
					setattr(obj, key, _NamedProperty(val.fget, val.fset, val.fdel, val.__doc__))


class _Loader(importlib.abc.Loader):
	def __init__(self, inner):
		self._inner = inner

	def create_module(self, spec):
		return self._inner.create_module(spec)

	def exec_module(self, module):
		self._inner.exec_module(module)
		_patch_module(module)

	def __getattr__(self, name):
		return getattr(self._inner, name)


class _Finder(importlib.abc.MetaPathFinder):
	def find_spec(self, fullname, path, target=None):
		if fullname not in _TARGETS:
			return None
		spec = importlib.machinery.PathFinder.find_spec(fullname, path)
		if spec is None or spec.loader is None:
			return None
		spec.loader = _Loader(spec.loader)
		return spec


if sys.version_info < (3, 13):
	sys.meta_path.insert(0, _Finder())
