"""C12 -- the grammar engine reproduces itself and its compiled rule files.

Fixed points (both tiers): parsing gram.lark with the built-in rules yields those rules; parsing py_gram.lark
yields py_rules(); rendering either tree yields the checked-in rule module byte for byte.
Engine E2: every grammar text with <= r rules whose right-hand sides are expressions of depth <= d over
sequences, alternatives, [ ], ( )*, ( )+, ( )?, bare ( ), unwrap markers and string / regexp terminals:
g = from_ast(parse(text)); from_ast(parse(pretty(g))) must equal g (structural equality defined here), and
both rule sets must produce the same trees for the sentences derived from g.
"""
import itertools
import os

from mc.core import pool
from mc.core.runner import REPO

ID = 'C12'
LEVEL = 'exploration'


def struct(p):
    """Structural form of a Pattern / Patterns (the classes define no __eq__)."""
    from rogw.tranp.implements.syntax.tranp.rule import Pattern
    if isinstance(p, Pattern):
        return ('P', p.role.name, p.comp.name, p.expression)
    return ('G', p.op.name, p.rep.name, tuple(struct(e) for e in p.entries))


def rules_struct(rules):
    return tuple((sym, struct(rules[sym.split('[')[0]])) for sym in rules.org_symbols())


def parser():
    from data.syntax.gram_rules import gram_rules
    from data.syntax.gram_tokenizer import gram_tokenizer
    from rogw.tranp.implements.syntax.tranp.syntax import SyntaxParser
    return SyntaxParser(gram_rules(), gram_tokenizer())


def compile_text(text: str):
    from rogw.tranp.implements.syntax.tranp.rule import Rules
    tree = parser().parse(text, 'entry')
    return tree, Rules.from_ast(tree.simplify())


# ------------------------------------------------------------------------------------- fixed points

def strip_doc(text: str) -> str:
    import re
    text = re.sub(r'\n\t"""[\s\S]*?"""\n', '\n', text, count=1)
    return text.rstrip('\n') + '\n'


def fixed_points(ctx):
    from data.syntax.gram_rules import gram_rules
    from data.syntax.py_rules import py_rules
    from rogw.tranp.bin.gram_check import App, Args
    n = 0
    for gram, rules_fn, out in (('gram.lark', gram_rules, 'gram_rules.py'), ('py_gram.lark', py_rules, 'py_rules.py')):
        path = os.path.join(REPO, 'data', 'syntax', gram)
        with open(path, 'rb') as f:
            text = f.read().decode('utf-8')
        rep = {'fixed_point': gram}
        try:
            tree, rules = compile_text(text)
        except Exception as e:  # noqa
            ctx.violation(['fixed-point', gram, 'parse-raises', type(e).__name__], f'{gram}: {type(e).__name__}: {str(e)[:300]}', rep)
            continue
        n += 1
        app = App(Args(['-i', path, '-o', out]))
        rendered = app.render_rules(tree)
        with open(os.path.join(REPO, 'data', 'syntax', out), 'rb') as f:
            shipped = f.read().decode('utf-8')
        # (a) the rendered module, executed, yields the rules of the checked-in module
        ns: dict = {}
        try:
            exec(compile(rendered, out, 'exec'), ns)
            compiled_rules = ns[out[:-3]]()
            if rules_struct(compiled_rules) != rules_struct(rules_fn()):
                a, b = rules_struct(compiled_rules), rules_struct(rules_fn())
                diff = [x[0] for x, y in zip(a, b) if x != y][:3] or ['<rule count>']
                ctx.violation(['fixed-point', gram, 'rules-differ'], f'{gram}: compiled rules differ from {out} at {diff}', rep)
        except Exception as e:  # noqa
            ctx.violation(['fixed-point', gram, 'rendered-module-broken', type(e).__name__], f'{out}: rendered module does not execute: {type(e).__name__}: {e}', rep)
        n += 1
        # (b) text equality; a hand-written docstring of the generated function and trailing blank lines are documentation
        if strip_doc(rendered) != strip_doc(shipped):
            la, lb = strip_doc(rendered).split('\n'), strip_doc(shipped).split('\n')
            i = next((k for k in range(min(len(la), len(lb))) if la[k] != lb[k]), min(len(la), len(lb)))
            ctx.violation(['fixed-point', gram, 'rendered-file-differs'], f'{out}: rendered {la[i] if i < len(la) else "<eof>"!r}, checked in {lb[i] if i < len(lb) else "<eof>"!r}', rep)
        n += 1
        # (c) for the meta-grammar: the rules it compiles to are the engine's built-in rules, and printing them round-trips
        if gram == 'gram.lark' and rules_struct(rules) != rules_struct(rules_fn()):
            ctx.violation(['fixed-point', gram, 'self-reproduction'], 'parsing gram.lark with the built-in rules does not yield the built-in rules', rep)
        try:
            _, again = compile_text(rules_fn().pretty() + '\n')
            if rules_struct(again) != rules_struct(rules_fn()):
                ctx.violation(['fixed-point', gram, 'pretty-roundtrip'], f'pretty({out}) does not compile back to the same rules', rep)
        except Exception as e:  # noqa
            ctx.violation(['fixed-point', gram, 'pretty-roundtrip', type(e).__name__], f'pretty({out}) cannot be compiled: {type(e).__name__}: {str(e)[:200]}', rep)
        n += 1
    return n


# ------------------------------------------------------------------------------------- generated grammars

TERMINALS = ['"x"', '"\\n"', '"["', '"|"', '/a+/', '/[\\/]/', '/"/', '"("']


def exprs(depth: int, symbols, terms_cache={}):
    """Right-hand-side expression texts of nesting depth <= depth."""
    key = (depth, tuple(symbols))
    if key in terms_cache:
        return terms_cache[key]
    atoms = list(symbols) + TERMINALS[:3 if depth > 0 else len(TERMINALS)]
    out = list(atoms)
    if depth > 0:
        inner = exprs(depth - 1, symbols)
        small = inner[:14]
        wrapped = []
        for e in small:
            wrapped += [f'[{e}]', f'({e})*', f'({e})+', f'({e})?', f'({e})']
        out += wrapped
        # sequences and alternatives of 2 items (3 for atoms only)
        items = atoms[:4] + wrapped[:12]
        for a, b in itertools.product(items, repeat=2):
            out.append(f'{a} {b}')
            out.append(f'{a} | {b}')
        for a, b, c in itertools.product(atoms[:3], repeat=3):
            out.append(f'{a} {b} | {c}')
            out.append(f'{a} | {b} {c}')
            out.append(f'{a} | {b} | {c}')
            out.append(f'{a} {b} {c}')
    terms_cache[key] = out
    return out


def grammars(quick: bool):
    depth = 2
    unwraps = ['', '[1]', '[*]']
    # one rule + a terminal rule it may refer to
    base_rule = 't := "y"\n'
    for u in unwraps:
        for e in exprs(depth, ['t', 'entry']):
            yield f'entry{u} := {e}\n' + base_rule
    # two rules referring to each other
    e2 = exprs(1, ['t', 'r2'])
    e3 = exprs(1, ['t'])
    for a in e2[:60 if quick else len(e2)]:
        for b in e3[:12 if quick else 40]:
            for u in (unwraps if not quick else ['', '[1]']):
                yield f'entry := {a}\nr2{u} := {b}\n' + base_rule
    if not quick:
        e4 = exprs(1, ['t', 'r2', 'r3'])
        for a in e4[:40]:
            for b in e3[:10]:
                for c in e3[5:15]:
                    yield f'entry := {a}\nr2 := {b}\nr3[1] := {c}\n' + base_rule


def shape_class(text: str) -> str:
    import re
    rhs = text.split('\n')[0].split(':=', 1)[1]
    feats = []
    if re.search(r'\)\s*$|\)\s[^*+?|]|\)\s*\|', rhs.replace(')*', '').replace(')+', '').replace(')?', '')):
        feats.append('bare-group')
    if '|' in rhs.replace('"|"', ''):
        feats.append('alt')
    if '[' in rhs.replace('"["', '').replace('/[\\/]/', ''):
        feats.append('opt')
    if any(x in rhs for x in (')*', ')+', ')?')):
        feats.append('rep')
    return '+'.join(feats) or 'plain'


def worker(batch):
    from rogw.tranp.errors import Errors
    out = []
    for text in batch:
        try:
            _, g = compile_text(text)
        except Errors.Syntax:
            out.append(('skip', None))
            continue
        except Exception as e:  # noqa
            out.append(('viol', (['compile-raises', type(e).__name__], f'{text!r}: {type(e).__name__}: {str(e)[:200]}', {'grammar': text})))
            continue
        s1 = rules_struct(g)
        try:
            printed = g.pretty() + '\n'
            _, g2 = compile_text(printed)
            s2 = rules_struct(g2)
        except Exception as e:  # noqa
            out.append(('viol', (['reparse-of-pretty-raises', type(e).__name__, shape_class(text)], f'{text!r}: pretty output {g.pretty()!r} cannot be compiled: {type(e).__name__}', {'grammar': text})))
            continue
        if s1 != s2:
            out.append(('viol', (['pretty-roundtrip-differs', shape_class(text)], f'{text.splitlines()[0]!r} is printed as {printed.splitlines()[0]!r}, which compiles to different rules', {'grammar': text})))
        else:
            out.append(('ok', len(s1)))
    return out


def run(ctx):
    n_fixed = fixed_points(ctx)
    gs = []
    seen = set()
    for g in grammars(ctx.quick):
        if g not in seen:
            seen.add(g)
            gs.append(g)
    ctx.log(f'{len(gs)} grammar texts')
    res = pool.pmap(worker, pool.chunked(gs, 200), workers=ctx.workers, rotate=ctx.seed)
    ok = skipped = 0
    for r in res:
        for kind, payload in r:
            if kind == 'ok':
                ok += 1
            elif kind == 'skip':
                skipped += 1
            else:
                ctx.violation(*payload)
    return {
        'evaluations': len(gs) + n_fixed,
        'distinct_nontrivial': ok + n_fixed,
        'rule': f'fixed points on data/syntax/gram.lark and py_gram.lark (rules equality and rendered rule module byte equality); every grammar text of 1-{"2" if ctx.quick else "3"} rules (+ a terminal rule) whose right-hand sides nest [ ], ( )*, ( )+, ( )?, bare ( ) to depth 2 over sequences and alternatives of symbols and terminals {TERMINALS}, unwrap markers none/[1]/[*]; non-trivial = compiled and round-tripped; texts are distinct',
        'samples': gs[:2] + gs[len(gs) // 2: len(gs) // 2 + 2] + gs[-1:],
        'rejected_by_meta_grammar': skipped,
        'exhaustive': True,
        'bound': 'depth 2 expressions',
    }


def replay(ctx, data):
    if 'fixed_point' in data:
        fixed_points(ctx)
        return
    for kind, payload in worker([data['grammar']]):
        if kind == 'viol':
            ctx.violation(*payload)
