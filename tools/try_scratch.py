#!/usr/bin/env python3
"""Dev-time: evaluate the mutation<k>.diff / demo<k>.py pairs of a sub-agent directory on a scratch worktree of /repo
(never /repo itself): apply, pinned suite, demonstration, the given checks with VERIF_REPO, undo.

Usage: tools/try_scratch.py <dir> <scratch worktree> C02[,C15]
"""
import glob
import os
import subprocess
import sys

VERIF = os.path.dirname(os.path.dirname(os.path.abspath(__file__)))


def sh(cmd, **kw):
    return subprocess.run(cmd, shell=True, capture_output=True, text=True, **kw)


def main():
    d, scratch, checks = sys.argv[1], sys.argv[2], sys.argv[3].split(',')
    head = sh('git -C /repo rev-parse HEAD').stdout.strip()
    if sh(f'git -C {scratch} status --porcelain').stdout.strip():
        print('refusing: scratch worktree is not clean')
        return 2
    sh(f'git -C {scratch} checkout -q --detach {head}')
    for diff in sorted(glob.glob(os.path.join(d, 'mutation*.diff'))):
        k = os.path.basename(diff)[len('mutation'):-len('.diff')]
        demo = os.path.join(d, f'demo{k}.py')
        line = [os.path.basename(d) + f' m{k}']
        r = sh(f'PYTHONPATH=/tmp/pyshim:{scratch} /venv/bin/python {demo} {scratch}')
        line.append(f'demo clean: exit {r.returncode}')
        if sh(f'git -C {scratch} apply {diff}').returncode != 0:
            print(' :: '.join(line + ['does not apply']), flush=True)
            continue
        try:
            r = sh(f'PYTHONPATH=/tmp/pyshim:{scratch} /venv/bin/python {demo} {scratch}')
            line.append(f'demo changed: exit {r.returncode} {(r.stdout.strip().splitlines() or [""])[-1][:70]!r}')
            r = sh(f'bash {VERIF}/tools/baseline.sh {scratch}')
            line.append((r.stdout.strip().splitlines() or ['?'])[0][:60])
            for c in checks:
                r = sh(f'{VERIF}/check {c} --tier quick', env=dict(os.environ, VERIF_REPO=scratch, VERIF_MAX_REPORT='2'))
                nv = r.stdout.count('\nVIOLATION') + (1 if r.stdout.startswith('VIOLATION') else 0)
                line.append(f'{c}: ' + ('DETECTED' if r.returncode == 1 and nv else ('MISSED' if r.returncode == 0 else f'broken({r.returncode})')) + f' ({nv})')
        finally:
            sh(f'git -C {scratch} checkout -- .')
            sh(f'rm -rf {scratch}/.cache')
        print(' :: '.join(line), flush=True)
    return 0


if __name__ == '__main__':
    sys.exit(main())
