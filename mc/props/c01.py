"""C01 -- transpiled C++ behaves like the Python source.

Engine E2: complete enumeration of the PyProg scope (expression trees up to n operators with minimal
parentheses, statement skeletons, feature schemas) x the full argument grid; oracle = CPython executing the
same source. Each module goes through the real pipeline (load, type inference, Py2Cpp), g++ -std=c++20, run.
"""
import os
import re
import shutil
import tempfile

from mc.core import pool
from mc.gen import pyprog
from mc.oracle import cpprun

ID = 'C01'
LEVEL = 'exploration'

_state = {}


def warm_parent():
    """Load every library module the PyProg header imports, once, in the parent: workers copy this warm cache."""
    from mc.tranp.session import Session
    Session({'__warm__': pyprog.HEADER + 'x: int = 0\n'}).load('__warm__')


def _init_worker():
    from mc.tranp.session import ensure_workdir
    wd = os.path.join(ensure_workdir(), 'cpp')
    os.makedirs(wd, exist_ok=True)
    _state['wd'] = wd


def transpile(source: str, name='prog'):
    """Returns ('ok', text) | ('rejected', exception class, message, where)."""
    from mc.tranp.session import Session
    from rogw.tranp.errors import Errors
    try:
        s = Session({name: source})
        return ('ok', s.transpile(name))
    except Errors.Error as e:
        node = e.args[0] if e.args else None
        where = type(node).__name__ if hasattr(node, 'full_path') else ''
        cause = e.__cause__
        inner = f'<-{type(cause).__name__}' if cause is not None and not isinstance(cause, Errors.Error) else ''
        return ('rejected', type(e).__name__ + inner, str(e)[:300], where)
    except RecursionError as e:
        return ('rejected', 'RecursionError', str(e)[:200], '')
    except Exception as e:  # noqa
        return ('rejected', 'raw:' + type(e).__name__, str(e)[:300], '')


def judge_program(prog: pyprog.Program):
    """Returns dict(stats..., viol=[(sig, what, replay)])."""
    res = {'functions': len(prog.functions), 'calls': 0, 'compared': 0, 'out_of_subset': 0, 'viol': [], 'outcomes': set(), 'cpp_failed': 0, 'rejected': 0}
    wd = _state['wd']

    def replay_of(name):
        single = prog.only([name])
        return {'program': single.to_json()}

    def tag_of(name):
        return [e for n, _, e in prog.functions if n == name][0].tag

    # 1. transpile (localise rejections per function)
    cur = prog
    r = transpile(cur.source)
    if r[0] != 'ok':
        accepted = []
        for name, _, e in prog.functions:
            r1 = transpile(prog.only([name]).source)
            if r1[0] == 'ok':
                accepted.append(name)
            else:
                res['rejected'] += 1
                res['viol'].append((['rejected', r1[1], r1[3], e.tag], f'{name} ({e.tag}) rejected by the transpiler: {r1[1]}: {r1[2]}\n{prog.only([name]).functions[0][1]}', replay_of(name)))
        cur = prog.only(accepted)
        if not accepted:
            return res
        r = transpile(cur.source)
        if r[0] != 'ok':
            res['viol'].append((['rejected-together', r[1]], f'{prog.name}: functions accepted one by one are rejected together: {r[2]}', {'program': cur.to_json()}))
            return res
    text = r[1]
    # 2. python reference
    fields = {c: f for c, f in (cur.fields or {}).items() if re.search(rf'^class {c}\b', cur.source, re.M)}
    py = cpprun.run_python(cur.source, cur.entries, fields)
    # 3. compile + run, dropping functions that do not compile (each is reported)
    for _ in range(6):
        stem = cpprun.stem_for(text)
        skip = {k for k, v in py.items() if isinstance(v, tuple)}
        out = cpprun.compile_and_run(wd, stem, text, cpprun.make_driver(cur.entries, fields, f'{stem}.h', skip))
        if out[0] == 'ok':
            break
        if out[0] == 'compile-error':
            bad = [b for b in out[2] if b in {n for n, _, _ in cur.functions}]
            if not bad:
                # the error lies in shared helpers or cannot be attributed: report the module and stop
                m = re.search(r'error: (.*)', out[1])
                res['viol'].append((['compile-error-unattributed', cpprun.error_class(m.group(1) if m else '?'), prog.name], f'{prog.name}: {out[1][:600]}', {'program': cur.to_json()}))
                return res
            for name in bad:
                res['cpp_failed'] += 1
                msg = cpprun.first_error_for(out[1], stem, text, name)
                body = [src for n, src, _ in cur.functions if n == name][0]
                cpp = _cpp_of(text, name)
                res['viol'].append((['compile-error', cpprun.error_class(msg), tag_of(name)], f'{name} ({tag_of(name)}): g++: {msg}\n--- python\n{body}--- c++\n{cpp}', replay_of(name)))
            cur = cur.without(bad)
            if not cur.functions:
                return res
            r = transpile(cur.source)
            if r[0] != 'ok':
                return res
            text = r[1]
            continue
        res['viol'].append((['run-error', out[1][:40], prog.layer], f'{prog.name}: {out[1]}', {'program': cur.to_json()}))
        return res
    else:
        return res
    cpp = out[1]
    for e in cur.entries:
        bad_values, bad_raise = [], []
        for k in range(len(e.vectors)):
            res['calls'] += 1
            want = py[(e.name, k)]
            if isinstance(want, tuple):
                res['out_of_subset'] += 1
                continue
            got = cpp.get((e.name, k), '<missing>')
            res['compared'] += 1
            res['outcomes'].add(hash(want) & 0xfff)
            if got != want:
                (bad_raise if '!exc' in (got, want) else bad_values).append((e.vectors[k], want, got))
        for kind, lst in (('wrong-value', bad_values), ('raises-differs', bad_raise)):
            if lst:
                body = [src for n, src, _ in cur.functions if n == e.name][0]
                vec, want, got = lst[0]
                res['viol'].append(([kind, e.tag], f'{e.name} ({e.tag}) args {vec}: python {want}, c++ {got} ({len(lst)} of {len(e.vectors)} argument vectors differ)\n--- python\n{body}--- c++\n{_cpp_of(text, e.name)}', replay_of(e.name)))
    res['outcomes'] = len(res['outcomes'])
    return res


def _cpp_of(text: str, name: str) -> str:
    for a, b, n in cpprun.function_ranges(text):
        if n == name:
            return '\n'.join(text.split('\n')[a - 1:b]) + '\n'
    return ''


def worker(pj):
    prog = pyprog.Program.from_json(pj)
    r = judge_program(prog)
    if isinstance(r['outcomes'], set):
        r['outcomes'] = len(r['outcomes'])
    return r


def _cleanup_worker_dirs():
    import glob
    for d in glob.glob(os.path.join(tempfile.gettempdir(), 'c01-*')):
        shutil.rmtree(d, ignore_errors=True)


def run(ctx):
    progs = list(pyprog.programs(ctx.quick))
    nfun = sum(len(p.functions) for p in progs)
    ctx.log(f'{len(progs)} modules, {nfun} entry functions')
    warm_parent()
    results = pool.pmap(worker, [p.to_json() for p in progs], workers=ctx.workers, init=_init_worker, rotate=ctx.seed)
    tot = {'functions': 0, 'calls': 0, 'compared': 0, 'out_of_subset': 0, 'outcomes': 0, 'cpp_failed': 0, 'rejected': 0}
    all_viol = []
    for r in results:
        for k in tot:
            tot[k] += r[k]
        all_viol.extend(r['viol'])
    ctx.merge(attribute_minimal(all_viol))
    samples = []
    for p in (progs[0], progs[len(progs) // 2], progs[-1]):
        samples.append(p.functions[len(p.functions) // 2][1])
    return {
        'evaluations': tot['calls'],
        'distinct_nontrivial': tot['compared'],
        'programs': len(progs),
        'rule': f'expression layer: every typed tree with <= {2 if ctx.quick else 3} operator applications over int ops {pyexprs()} rendered with minimal parentheses and fully parenthesised; statement skeletons (if/elif/else nests, while, for over range 1-3 args/list/enumerate/dict views, break/continue, all augmented operators, destructuring, declaration vs re-assignment, defaults, closures, lambdas, try/raise/except{", every compound inside every compound" if not ctx.quick else ""}); feature schemas (classes, inheritance, enums, list/dict/str methods, slices, comprehensions, casts, floats); argument grid a,b in {pyprog.INTS} x p,q in both booleans; non-trivial = a call that is inside the agreed subset (no negative modulo / division by zero / shift range / 32-bit overflow on the Python side) and was compared',
        'samples': samples,
        'entry_functions': tot['functions'],
        'calls_out_of_subset': tot['out_of_subset'],
        'functions_not_compiling': tot['cpp_failed'],
        'functions_rejected_by_transpiler': tot['rejected'],
        'distinct_outcome_hashes': tot['outcomes'],
        'exhaustive': True,
        'bound': f'<= {2 if ctx.quick else 3} operators; skeleton depth {1 if ctx.quick else 2}',
    }


def attribute_minimal(viols):
    """Expression layer: a failing tree whose operator-class set contains the set of a smaller failing tree of the
    same failure kind is attributed to that smaller set (minimal failing sets); other violations pass unchanged."""
    def parts(sig):
        tag = sig[-1]
        return frozenset(tag[5:].split('+')) if isinstance(tag, str) and tag.startswith('expr:') else None
    groups = {}
    for sig, what, rep in viols:
        ps = parts(sig)
        if ps is not None:
            groups.setdefault(tuple(sig[:-1]), set()).add(ps)
    minimal = {k: [x for x in v if not any(y < x for y in v)] for k, v in groups.items()}
    out = []
    for sig, what, rep in viols:
        ps = parts(sig)
        if ps is None:
            out.append((sig, what, rep))
            continue
        base = sorted((m for m in minimal[tuple(sig[:-1])] if m <= ps), key=lambda m: (len(m), sorted(m)))[0]
        out.append((list(sig[:-1]) + ['expr:' + '+'.join(sorted(base))], what, rep))
    # simplest first within each signature: shortest source text
    out.sort(key=lambda v: len(v[1]))
    return out


def pyexprs():
    from mc.gen import pyexpr
    return pyexpr.INT_BIN + pyexpr.INT_UN + pyexpr.CMP + pyexpr.BOOL_BIN + ['not', 'ternary', 'in', 'not in', 'comparison chain']


def replay(ctx, data):
    warm_parent()
    _init_worker()
    r = judge_program(pyprog.Program.from_json(data['program']))
    ctx.merge(attribute_minimal(r['viol']))
