#!/usr/bin/env python3
"""Dev-time regression: apply every kept seed to /repo, run the checks listed in its meta.json (quick tier), undo it.

Writes seeded/STATUS.md: seed | applies | detected by. Run it only when nothing else uses /repo.
Usage: tools/verify_seeds.py [seed-prefix ...]
"""
import json
import os
import subprocess
import sys

VERIF = os.path.dirname(os.path.dirname(os.path.abspath(__file__)))
# SEED_REPO: a scratch worktree / snapshot of /repo to patch instead of /repo itself (the checks then run with VERIF_REPO)
REPO = os.environ.get('SEED_REPO', '/repo')


def sh(cmd, **kw):
    return subprocess.run(cmd, shell=True, capture_output=True, text=True, **kw)


def main():
    args = sys.argv[1:]
    every = 1
    if '--every' in args:
        i = args.index('--every')
        every = int(args[i + 1])
        del args[i:i + 2]
    offset = 0
    if '--offset' in args:
        i = args.index('--offset')
        offset = int(args[i + 1])
        del args[i:i + 2]
    want = args
    rows = []
    seeds = sorted(d for d in os.listdir(os.path.join(VERIF, 'seeded')) if os.path.isfile(os.path.join(VERIF, 'seeded', d, 'patch.diff')))
    if sh(f'git -C {REPO} status --porcelain').stdout.strip():
        print('refusing: /repo is not clean')
        return 2
    for k, sd in enumerate(seeds):
        if want and not any(sd.startswith(w) for w in want):
            continue
        if k % every != offset % every:
            continue
        meta = json.load(open(os.path.join(VERIF, 'seeded', sd, 'meta.json')))
        patch = os.path.join(VERIF, 'seeded', sd, 'patch.diff')
        checks = [c for c in meta.get('detected_by', []) if c]
        if sh(f'git -C {REPO} apply {patch}').returncode != 0:
            rows.append((sd, 'no', '-'))
            print(sd, 'does not apply', flush=True)
            continue
        try:
            res = []
            for c in checks:
                r = sh(f'{VERIF}/check {c} --tier quick', env=dict(os.environ, VERIF_MAX_REPORT='3', VERIF_REPO=REPO))
                res.append(f'{c}:' + ('detected' if r.returncode == 1 and 'VIOLATION' in r.stdout else ('MISSED' if r.returncode == 0 else f'broken({r.returncode})')))
        finally:
            sh(f'git -C {REPO} checkout -- .')
            sh(f'git -C {VERIF} checkout -- evidence replays 2>/dev/null')
            sh(f'git -C {VERIF} clean -fdq replays')
        rows.append((sd, 'yes', ' '.join(res)))
        print(sd, ' '.join(res), flush=True)
    head = sh(f'git -C {REPO} log --format=%h -1').stdout.strip()
    with open(os.path.join(VERIF, 'seeded', 'STATUS.md'), 'w') as f:
        f.write(f'# Seeded changes against /repo {head} (quick tier of the checks named in meta.json)\n\n| seed | applies | result |\n|---|---|---|\n')
        for r in rows:
            f.write(f'| {r[0]} | {r[1]} | {r[2]} |\n')
    bad = [r for r in rows if 'MISSED' in r[2] or 'broken' in r[2] or r[1] == 'no']
    print(f'{len(rows)} seeds, {len(bad)} need attention: {[b[0] for b in bad]}')
    return 0


if __name__ == '__main__':
    sys.exit(main())
