"""Neutral tree form shared by CPython's ast and tranp's node tree (C02, C09 use it).

Both sides are mapped to nested tuples. Only node *properties* are used on the tranp side (never raw
entry children), so a property that selects the wrong child shows up as a structural difference.
"""
import ast

# ------------------------------------------------------------------------------------ CPython side

BINOPS = {ast.Add: '+', ast.Sub: '-', ast.Mult: '*', ast.Div: '/', ast.Mod: '%', ast.BitOr: '|', ast.BitXor: '^', ast.BitAnd: '&', ast.LShift: '<<', ast.RShift: '>>',
          ast.FloorDiv: '//', ast.Pow: '**', ast.MatMult: '@'}
CMPOPS = {ast.Lt: '<', ast.Gt: '>', ast.Eq: '==', ast.GtE: '>=', ast.LtE: '<=', ast.NotEq: '!=', ast.In: 'in', ast.NotIn: 'not in', ast.Is: 'is', ast.IsNot: 'is not'}
UNOPS = {ast.Not: 'not', ast.USub: '-', ast.UAdd: '+', ast.Invert: '~'}


class Unsupported(Exception):
    pass


def py_expr(n, ctx_matters=True):
    if isinstance(n, ast.Name):
        return ('Name', n.id, 'store' if isinstance(n.ctx, ast.Store) else 'load')
    if isinstance(n, ast.Constant):
        v = n.value
        if v is True:
            return ('True',)
        if v is False:
            return ('False',)
        if v is None:
            return ('None',)
        if v is Ellipsis:
            return ('Ellipsis',)
        if isinstance(v, (int, float)):
            return ('Num', repr(v))
        if isinstance(v, str):
            return ('Str', v)
        raise Unsupported(type(v).__name__)
    if isinstance(n, ast.BinOp):
        return ('BinOp', BINOPS[type(n.op)], py_expr(n.left), py_expr(n.right))
    if isinstance(n, ast.BoolOp):
        return ('BoolOp', 'or' if isinstance(n.op, ast.Or) else 'and', tuple(py_expr(v) for v in n.values))
    if isinstance(n, ast.UnaryOp):
        return ('UnaryOp', UNOPS[type(n.op)], py_expr(n.operand))
    if isinstance(n, ast.Compare):
        return ('Compare', py_expr(n.left), tuple(CMPOPS[type(o)] for o in n.ops), tuple(py_expr(c) for c in n.comparators))
    if isinstance(n, ast.IfExp):
        return ('IfExp', py_expr(n.test), py_expr(n.body), py_expr(n.orelse))
    if isinstance(n, ast.NamedExpr):
        return ('NamedExpr', py_expr(n.target), py_expr(n.value))
    if isinstance(n, ast.Call):
        args = []
        for a in n.args:
            if isinstance(a, ast.Starred):
                args.append(('star', py_expr(a.value)))
            else:
                args.append(('pos', py_expr(a)))
        for k in n.keywords:
            if k.arg is None:
                args.append(('dstar', py_expr(k.value)))
            else:
                args.append(('kw', k.arg, py_expr(k.value)))
        return ('Call', py_expr(n.func), tuple(args))
    if isinstance(n, ast.Attribute):
        return ('Attr', py_expr(n.value), n.attr)
    if isinstance(n, ast.Subscript):
        s = n.slice
        if isinstance(s, ast.Slice):
            sl = ('Slice', py_opt(s.lower), py_opt(s.upper), py_opt(s.step))
            return ('Subscript', py_expr(n.value), 'single', (sl,))
        if isinstance(s, ast.Tuple):
            return ('Subscript', py_expr(n.value), 'tuple', tuple(py_expr(e) for e in s.elts))
        return ('Subscript', py_expr(n.value), 'single', (py_expr(s),))
    if isinstance(n, ast.List):
        return ('List', tuple(py_expr(e) for e in n.elts))
    if isinstance(n, ast.Tuple):
        return ('Tuple', tuple(py_expr(e) for e in n.elts))
    if isinstance(n, ast.Dict):
        items = []
        for k, v in zip(n.keys, n.values):
            items.append(('dstar', py_expr(v)) if k is None else ('pair', py_expr(k), py_expr(v)))
        return ('Dict', tuple(items))
    if isinstance(n, ast.Starred):
        return ('Starred', py_expr(n.value))
    if isinstance(n, ast.Lambda):
        a = n.args
        if a.vararg or a.kwarg or a.kwonlyargs or a.defaults or a.posonlyargs:
            raise Unsupported('lambda params')
        return ('Lambda', tuple(x.arg for x in a.args), py_expr(n.body))
    if isinstance(n, ast.ListComp):
        return ('ListComp', py_expr(n.elt), py_gens(n.generators))
    if isinstance(n, ast.DictComp):
        return ('DictComp', py_expr(n.key), py_expr(n.value), py_gens(n.generators))
    raise Unsupported(type(n).__name__)


def py_opt(n):
    return ('Empty',) if n is None else py_expr(n)


def py_gens(gens):
    out = []
    for g in gens:
        if g.is_async:
            raise Unsupported('async comp')
        t = g.target
        names = tuple(e.id for e in t.elts) if isinstance(t, ast.Tuple) else (t.id,)
        out.append((names, py_expr(g.iter), tuple(py_expr(i) for i in g.ifs)))
    return tuple(out)


def py_type(n):
    """Annotations: same shape, names without ctx."""
    if n is None:
        return ('Empty',)
    if isinstance(n, ast.Name):
        return ('TName', n.id)
    if isinstance(n, ast.Attribute):
        return ('TAttr', py_type(n.value), n.attr)
    if isinstance(n, ast.Constant):
        if n.value is None:
            return ('TNone',)
        if n.value is Ellipsis:
            return ('TEllipsis',)
        if isinstance(n.value, str):
            # quoted annotation: 'T' is transparent in tranp's grammar
            return py_type(ast.parse(n.value, mode='eval').body)
        raise Unsupported('type const')
    if isinstance(n, ast.Subscript):
        s = n.slice
        elts = s.elts if isinstance(s, ast.Tuple) else [s]
        return ('TSub', py_type(n.value), tuple(py_type(e) for e in elts))
    if isinstance(n, ast.BinOp) and isinstance(n.op, ast.BitOr):
        return ('TUnion', tuple(flatten_union(n)))
    if isinstance(n, ast.List):
        return ('TList', tuple(py_type(e) for e in n.elts))
    if isinstance(n, ast.Starred):
        return py_type(n.value)
    raise Unsupported(f'type {type(n).__name__}')


def flatten_union(n):
    if isinstance(n, ast.BinOp) and isinstance(n.op, ast.BitOr):
        return flatten_union(n.left) + [py_type(n.right)]
    return [py_type(n)]


def py_target(n, declares_this_var=False):
    """Assignment-like target. Name ctx kept; attribute/subscript targets compared structurally."""
    if declares_this_var and isinstance(n, ast.Attribute) and isinstance(n.value, ast.Name) and n.value.id == 'self':
        return ('AttrDecl', 'self', n.attr)
    if isinstance(n, ast.Name):
        return ('Name', n.id, 'store')
    if isinstance(n, ast.Tuple):
        return ('Targets', tuple(py_target(e) for e in n.elts))
    if isinstance(n, ast.Starred):
        return ('Starred', py_target(n.value))
    return py_expr(n)


def py_block(stmts, env):
    return tuple(py_stmt(s, env) for s in stmts)


def py_params(a: ast.arguments):
    if a.posonlyargs or a.kwonlyargs:
        raise Unsupported('posonly/kwonly')
    out = []
    n_def = len(a.defaults)
    for i, p in enumerate(a.args):
        d = a.defaults[i - (len(a.args) - n_def)] if i >= len(a.args) - n_def else None
        out.append(('param', '', p.arg, py_type(p.annotation), py_opt(d)))
    if a.vararg:
        out.append(('param', '*', a.vararg.arg, py_type(a.vararg.annotation), ('Empty',)))
    if a.kwarg:
        out.append(('param', '**', a.kwarg.arg, py_type(a.kwarg.annotation), ('Empty',)))
    return tuple(out)


def py_decorators(decs):
    out = []
    for d in decs:
        if isinstance(d, ast.Call):
            c = py_expr(d)
            out.append(('Decorator', dotted(d.func), c[2]))
        else:
            out.append(('Decorator', dotted(d), ()))
    return tuple(out)


def dotted(n):
    if isinstance(n, ast.Name):
        return n.id
    if isinstance(n, ast.Attribute):
        return dotted(n.value) + '.' + n.attr
    raise Unsupported('decorator path')


def classify_def(n: ast.FunctionDef, env) -> str:
    """The classification Python semantics dictates (env: 'module' | 'class' | 'function')."""
    if env == 'class':
        names = [dotted(d) if not isinstance(d, ast.Call) else dotted(d.func) for d in n.decorator_list]
        if 'classmethod' in names:
            return 'class_method'
        if n.name == '__init__':
            return 'constructor'
        if n.args.args and n.args.args[0].arg == 'self':
            return 'method'
        return 'function'
    if env == 'function':
        return 'closure'
    return 'function'


def py_stmt(n, env='module'):
    # a statement directly in the body of __init__: `self.x = v` / `self.x: T = v` declares the instance variable x
    # (anywhere else the same text refers to an existing attribute)
    in_ctor = env == 'ctor'
    if in_ctor:
        env = 'function'
    if isinstance(n, ast.Expr):
        return ('Expr', py_expr(n.value))
    if isinstance(n, ast.Assign):
        if len(n.targets) != 1:
            return ('ChainAssign', tuple(py_target(t) for t in n.targets), py_expr(n.value))
        t = n.targets[0]
        targets = tuple(py_target(e, in_ctor) for e in t.elts) if isinstance(t, ast.Tuple) else (py_target(t, in_ctor),)
        return ('Assign', targets, py_expr(n.value))
    if isinstance(n, ast.AnnAssign):
        return ('AnnAssign', py_target(n.target, in_ctor), py_type(n.annotation), py_opt(n.value))
    if isinstance(n, ast.AugAssign):
        return ('AugAssign', strip_ctx(py_target(n.target)), BINOPS[type(n.op)] + '=', py_expr(n.value))
    if isinstance(n, ast.Return):
        return ('Return', py_opt(n.value))
    if isinstance(n, ast.Raise):
        return ('Raise', py_opt(n.exc), py_opt(n.cause))
    if isinstance(n, ast.Pass):
        return ('Pass',)
    if isinstance(n, ast.Break):
        return ('Break',)
    if isinstance(n, ast.Continue):
        return ('Continue',)
    if isinstance(n, ast.Delete):
        return ('Delete', tuple(strip_ctx(py_expr(t)) for t in n.targets))
    if isinstance(n, ast.Assert):
        return ('Assert', py_expr(n.test), py_opt(n.msg))
    if isinstance(n, ast.ImportFrom):
        if n.level:
            raise Unsupported('relative import')
        return ('ImportFrom', n.module, tuple((a.name, a.asname or '') for a in n.names))
    if isinstance(n, ast.If):
        # flatten the elif chain the way the source spells it
        elifs = []
        orelse = n.orelse
        while len(orelse) == 1 and isinstance(orelse[0], ast.If) and getattr(orelse[0], '_is_elif', True) and is_elif(n, orelse[0]):
            e = orelse[0]
            elifs.append((py_expr(e.test), py_block(e.body, env)))
            orelse = e.orelse
        return ('If', py_expr(n.test), py_block(n.body, env), tuple(elifs), py_block(orelse, env) if orelse else ('NoElse',))
    if isinstance(n, ast.While):
        if n.orelse:
            raise Unsupported('while-else')
        return ('While', py_expr(n.test), py_block(n.body, env))
    if isinstance(n, ast.For):
        if n.orelse:
            raise Unsupported('for-else')
        t = n.target
        names = tuple(e.id for e in t.elts) if isinstance(t, ast.Tuple) else (t.id,)
        return ('For', names, py_expr(n.iter), py_block(n.body, env))
    if isinstance(n, ast.Try):
        if n.orelse or n.finalbody:
            raise Unsupported('try-else/finally')
        hs = tuple(('Catch', py_type(h.type), h.name or '', py_block(h.body, env)) for h in n.handlers)
        return ('Try', py_block(n.body, env), hs)
    if isinstance(n, ast.With):
        items = tuple(('WithItem', py_expr(i.context_expr), i.optional_vars.id if i.optional_vars is not None else '') for i in n.items)
        return ('With', items, py_block(n.body, env))
    if isinstance(n, ast.FunctionDef):
        return ('Def', classify_def(n, env), n.name, py_decorators(n.decorator_list), py_params(n.args), py_type(n.returns), py_block(strip_doc(n.body), 'ctor' if n.name == '__init__' else 'function'))
    if isinstance(n, ast.ClassDef):
        if n.keywords:
            raise Unsupported('class keywords')
        return ('Class', n.name, py_decorators(n.decorator_list), tuple(py_type(b) for b in n.bases), py_block(strip_doc(n.body), 'class'))
    raise Unsupported(type(n).__name__)


def strip_doc(body):
    if body and isinstance(body[0], ast.Expr) and isinstance(body[0].value, ast.Constant) and isinstance(body[0].value.value, str) and len(body) > 1:
        # tranp keeps a triple-double-quoted first string as the comment; the generator never emits one
        return body
    return body


def is_elif(parent: ast.If, child: ast.If) -> bool:
    """`elif` and `else:\\n if` produce the same ast; tell them apart by column (elif sits at the parent's column)."""
    return child.col_offset == parent.col_offset


def strip_ctx(t):
    if isinstance(t, tuple):
        if t and t[0] == 'Name' and len(t) == 3:
            return ('Name', t[1], 'any')
        return tuple(strip_ctx(x) for x in t)
    return t


def canon_py_module(src: str):
    tree = ast.parse(src)
    return tuple(py_stmt(s, 'module') for s in tree.body)


# ------------------------------------------------------------------------------------ tranp side

def _defs():
    import rogw.tranp.syntax.node.definition as defs
    return defs


CMP_BY_TAG = {'comp_in': 'in', 'comp_not_in': 'not in', 'comp_is': 'is', 'comp_is_not': 'is not'}


class Mismatch(Exception):
    """tranp node tree has a shape the canonicaliser cannot express (reported as a structural violation)."""


def tr_expr(n):
    defs = _defs()
    if isinstance(n, defs.Group):
        return tr_expr(n.expression)
    if isinstance(n, defs.Declable):
        if isinstance(n, defs.DeclThisVar):
            recv, _, prop = n.tokens.rpartition('.')
            return ('AttrDecl', recv, prop)
        return ('Name', n.tokens, 'store')
    if isinstance(n, defs.Var):
        return ('Name', n.tokens, 'load')
    if isinstance(n, defs.Relay):
        return ('Attr', tr_expr(n.receiver), n.prop.tokens)
    if isinstance(n, defs.Integer):
        t = n.tokens
        return ('Num', repr(int(t, 16) if t.lower().startswith('0x') else int(t)))
    if isinstance(n, defs.Float):
        return ('Num', repr(float(n.tokens)))
    if isinstance(n, defs.String):
        return ('Str', ast.literal_eval(n.tokens))
    if isinstance(n, defs.Truthy):
        return ('True',)
    if isinstance(n, defs.Falsy):
        return ('False',)
    if isinstance(n, defs.Null):
        return ('None',)
    if isinstance(n, defs.Elipsis):
        return ('Ellipsis',)
    if isinstance(n, defs.Empty):
        return ('Empty',)
    if isinstance(n, defs.Comparison):
        els = n.elements
        if len(els) < 3 or len(els) % 2 == 0:
            raise Mismatch(f'comparison with {len(els)} elements')
        ops = []
        for o in els[1::2]:
            ops.append(CMP_BY_TAG.get(o.tag, o.tokens))
        return ('Compare', tr_expr(els[0]), tuple(ops), tuple(tr_expr(e) for e in els[2::2]))
    if isinstance(n, (defs.OrCompare, defs.AndCompare)):
        els = n.elements
        if len(els) < 3 or len(els) % 2 == 0:
            raise Mismatch(f'bool chain with {len(els)} elements')
        ops = {o.tokens for o in els[1::2]}
        want = 'or' if isinstance(n, defs.OrCompare) else 'and'
        if ops != {want}:
            raise Mismatch(f'{want} chain with operators {ops}')
        return ('BoolOp', want, tuple(tr_expr(e) for e in els[0::2]))
    if isinstance(n, defs.BinaryOperator):
        els = n.elements
        if len(els) < 3 or len(els) % 2 == 0:
            raise Mismatch(f'binary chain with {len(els)} elements')
        acc = tr_expr(els[0])
        for i in range(1, len(els), 2):
            acc = ('BinOp', els[i].tokens, acc, tr_expr(els[i + 1]))
        return acc
    if isinstance(n, defs.UnaryOperator):
        return ('UnaryOp', n.operator.tokens, tr_expr(n.value))
    if isinstance(n, defs.TernaryOperator):
        return ('IfExp', tr_expr(n.condition), tr_expr(n.primary), tr_expr(n.secondary))
    if isinstance(n, defs.FuncCall):
        return ('Call', tr_expr(n.calls), tuple(tr_arg(a) for a in n.arguments))
    if isinstance(n, defs.Indexer):
        keys = n.keys
        if n.sliced:
            if len(keys) != 3:
                raise Mismatch(f'slice with {len(keys)} parts')
            return ('Subscript', tr_expr(n.receiver), 'single', (('Slice', tr_expr(keys[0]), tr_expr(keys[1]), tr_expr(keys[2])),))
        # a[(x, y)] and a[x, y] are the same tree for CPython: a single parenthesised tuple key is expanded
        if len(keys) == 1:
            k = keys[0]
            while isinstance(k, defs.Group):
                k = k.expression
            if isinstance(k, defs.Tuple):
                return ('Subscript', tr_expr(n.receiver), 'tuple', tuple(tr_expr(v) for v in k.values))
            return ('Subscript', tr_expr(n.receiver), 'single', (tr_expr(k),))
        return ('Subscript', tr_expr(n.receiver), 'tuple', tuple(tr_expr(k) for k in keys))
    if isinstance(n, defs.List):
        return ('List', tuple(tr_expr(v) for v in n.values))
    if isinstance(n, defs.Tuple):
        return ('Tuple', tuple(tr_expr(v) for v in n.values))
    if isinstance(n, defs.Dict):
        items = []
        for it in n.items:
            if isinstance(it, defs.Pair):
                items.append(('pair', tr_expr(it.first), tr_expr(it.second)))
            else:
                items.append(('dstar', tr_expr(it)))
        return ('Dict', tuple(items))
    if isinstance(n, defs.Spread):
        return ('Starred', tr_expr(n.expression))
    if isinstance(n, defs.Lambda):
        return ('Lambda', tuple(s.tokens for s in n.symbols), tr_expr(n.expression))
    if isinstance(n, defs.ListComp):
        return ('ListComp', tr_expr(n.projection), tr_gens(n))
    if isinstance(n, defs.DictComp):
        p = n.projection
        if not isinstance(p, defs.Pair):
            raise Mismatch('dict comprehension projection is not a pair')
        return ('DictComp', tr_expr(p.first), tr_expr(p.second), tr_gens(n))
    if isinstance(n, defs.Type):
        return tr_type(n)
    raise Mismatch(f'unexpected expression node {type(n).__name__} ({n.tag})')


def tr_gens(n):
    defs = _defs()
    fors = n.fors
    out = []
    for i, f in enumerate(fors):
        ifs = ()
        if i == len(fors) - 1 and not isinstance(n.condition, defs.Empty):
            ifs = (tr_expr(n.condition),)
        out.append((tuple(s.tokens for s in f.symbols), tr_expr(f.iterates), ifs))
    return tuple(out)


def tr_arg(a):
    defs = _defs()
    v = tr_expr(a.value)
    if a.unpacking == '*':
        return ('star', v)
    if a.unpacking == '**':
        return ('dstar', v)
    if not isinstance(a.label, defs.Empty):
        return ('kw', a.label.tokens, v)
    return ('pos', v)


def tr_type(n):
    defs = _defs()
    if isinstance(n, defs.Empty):
        return ('Empty',)
    if isinstance(n, defs.NullType):
        return ('TNone',)
    if isinstance(n, defs.UnionType):
        return ('TUnion', tuple(tr_type(t) for t in n.or_types))
    if isinstance(n, defs.RelayOfType):
        return ('TAttr', tr_type(n.receiver), n.prop.tokens)
    if isinstance(n, defs.CallableType):
        params = ('TList', tuple(tr_type(t) for t in n.parameters))
        return ('TSub', tr_type(n.type_name), (params, tr_type(n.return_type)))
    if isinstance(n, defs.GenericType):
        return ('TSub', tr_type(n.type_name), tuple(tr_type(t) for t in n.sub_types))
    if isinstance(n, defs.VarOfType):
        return ('TName', n.tokens)
    if isinstance(n, defs.TypeParameters):
        if n.tag == 'typed_elipsis':
            return ('TEllipsis',)
        return ('TList', tuple(tr_type(t) for t in n.type_params))
    raise Mismatch(f'unexpected type node {type(n).__name__} ({n.tag})')


def tr_target(n):
    defs = _defs()
    if isinstance(n, defs.Declable) and not isinstance(n, defs.DeclThisVar):
        return ('Name', n.tokens, 'store')
    return tr_expr(n)


def tr_block(stmts):
    return tuple(tr_stmt(s) for s in stmts)


FUNC_KIND = {'ClassMethod': 'class_method', 'Constructor': 'constructor', 'Method': 'method', 'Closure': 'closure', 'Function': 'function'}


def tr_decorators(decs):
    return tuple(('Decorator', d.path.tokens, tuple(tr_arg(a) for a in d.arguments)) for d in decs)


def tr_stmt(n):
    defs = _defs()
    if isinstance(n, defs.MoveAssign):
        return ('Assign', tuple(tr_target(r) for r in n.receivers), tr_expr(n.value))
    if isinstance(n, defs.AnnoAssign):
        return ('AnnAssign', tr_target(n.receiver), tr_type(n.var_type), tr_expr(n.value))
    if isinstance(n, defs.AugAssign):
        return ('AugAssign', strip_ctx(tr_target(n.receiver)), n.operator.tokens, tr_expr(n.value))
    if isinstance(n, defs.Return):
        return ('Return', tr_expr(n.return_value))
    if isinstance(n, defs.Throw):
        return ('Raise', tr_expr(n.throws), tr_expr(n.via))
    if isinstance(n, defs.Pass):
        return ('Pass',)
    if isinstance(n, defs.Break):
        return ('Break',)
    if isinstance(n, defs.Continue):
        return ('Continue',)
    if isinstance(n, defs.Delete):
        return ('Delete', tuple(strip_ctx(tr_expr(t)) for t in n.targets))
    if isinstance(n, defs.Assert):
        return ('Assert', tr_expr(n.condition), tr_expr(n.assert_body))
    if isinstance(n, defs.Import):
        return ('ImportFrom', n.import_path.tokens, tuple((s.entity_symbol.tokens, '' if isinstance(s.alias, defs.Empty) else s.alias.tokens) for s in n.symbols))
    if isinstance(n, defs.If):
        elifs = tuple((tr_expr(e.condition), tr_block(e.statements)) for e in n.else_ifs)
        els = n.else_clause
        return ('If', tr_expr(n.condition), tr_block(n.statements), elifs, ('NoElse',) if isinstance(els, defs.Empty) else tr_block(els.statements))
    if isinstance(n, defs.While):
        return ('While', tr_expr(n.condition), tr_block(n.statements))
    if isinstance(n, defs.For):
        return ('For', tuple(s.tokens for s in n.symbols), tr_expr(n.iterates), tr_block(n.statements))
    if isinstance(n, defs.Try):
        hs = tuple(('Catch', tr_type(c.var_type), c.symbol.tokens, tr_block(c.statements)) for c in n.catches)
        return ('Try', tr_block(n.statements), hs)
    if isinstance(n, defs.With):
        items = tuple(('WithItem', tr_expr(e.enter), '' if isinstance(e.symbol, defs.Empty) else e.symbol.tokens) for e in n.entries)
        return ('With', items, tr_block(n.statements))
    if isinstance(n, defs.Function):
        params = tuple(('param', p.packing, p.symbol.tokens, tr_type(p.var_type), tr_expr(p.default_value)) for p in n.parameters)
        return ('Def', FUNC_KIND[type(n).__name__], n.symbol.tokens, tr_decorators(n.decorators), params, tr_type(n.return_type), tr_body(n))
    if isinstance(n, defs.Class):
        return ('Class', n.symbol.tokens, tr_decorators(n.decorators), tuple(tr_type(t) for t in n.inherits), tr_body(n))
    if isinstance(n, defs.Comment):
        return ('Comment',)
    # expression statement
    return ('Expr', tr_expr(n))


_READ_ORDER = ['declared']


def tr_body(n):
    """Body of a class / function: the leading docstring (tranp: `comment`) followed by the statements, as CPython's body
    lists them. The two properties are read in the order the caller selected (declared: comment first)."""
    import ast as _ast
    defs = _defs()
    if _READ_ORDER[0] == 'statements-first':
        st = tr_block(n.statements)
        c = n.comment
    else:
        c = n.comment
        st = tr_block(n.statements)
    doc = () if isinstance(c, defs.Empty) else (('Expr', ('Str', _ast.literal_eval(c.tokens))),)
    return doc + st


def canon_tranp_module(entrypoint, read_order='declared'):
    _READ_ORDER[0] = read_order
    try:
        return tuple(tr_stmt(s) for s in entrypoint.statements)
    finally:
        _READ_ORDER[0] = 'declared'


def first_diff(a, b, path='root'):
    """Short description of the first structural difference between two canonical trees."""
    if type(a) is not type(b):
        return f'{path}: {a!r} vs {b!r}'
    if isinstance(a, tuple):
        if a and b and isinstance(a[0], str) and isinstance(b[0], str) and a[0] != b[0]:
            return f'{path}: {a[0]} vs {b[0]}'
        if len(a) != len(b):
            return f'{path}/{a[0] if a and isinstance(a[0], str) else ""}: arity {len(a)} vs {len(b)}'
        for i, (x, y) in enumerate(zip(a, b)):
            head = a[0] if a and isinstance(a[0], str) else ''
            d = first_diff(x, y, f'{path}/{head}[{i}]')
            if d:
                return d
        return None
    return None if a == b else f'{path}: {a!r} vs {b!r}'


def diff_class(a, b):
    """Coarse class of the first difference: pair of node heads along the path (for finding signatures)."""
    if type(a) is not type(b):
        return ('type', str(type(a).__name__), str(type(b).__name__))
    if isinstance(a, tuple):
        ha = a[0] if a and isinstance(a[0], str) else ''
        hb = b[0] if b and isinstance(b[0], str) else ''
        if ha != hb:
            atom = lambda h: 'Atom' if h in ('Name', 'Num', 'Str', 'True', 'False', 'None', 'Ellipsis') else h
            return ('head', atom(ha), atom(hb))
        if len(a) != len(b):
            return ('arity', ha, f'{len(a)}!={len(b)}')
        for i, (x, y) in enumerate(zip(a, b)):
            d = diff_class(x, y)
            if d:
                if d[0] in ('leaf',) and ha:
                    return ('leaf-in', ha, f'field{i}')
                return d if len(d) > 3 or not ha else d + (f'in={ha}.{i}',)
        return None
    return None if a == b else ('leaf', repr(a)[:20], repr(b)[:20])
