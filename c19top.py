"""Top-level module (no package) holding one of the C19 universe's nested symbol classes: a nested class of a top-level
module has a three-element dotted name (c19top.OuterA.Item), the shortest shape to_fullyname can produce for one."""


class Inst:
    """Anything a factory returns: remembers who made it, when, and from which dependencies/arguments."""
    serial_source = None   # set by mc.props.c19_universe
    log = None

    def __init__(self, maker: str, *deps) -> None:
        self.maker = maker
        self.serial = Inst.serial_source()
        self.deps = deps
        Inst.log.append(self)

    def desc(self):
        return (self.maker, self.serial, tuple(d.desc() if isinstance(d, Inst) else repr(d) for d in self.deps))


class OuterA:
    class Item(Inst):
        """Falsy by length (an empty collection-like service)."""
        def __len__(self) -> int:
            return 0
