"""C11 -- the self-hosted parser builds the trees CPython builds.

Engine E2: sentences are *derived from the Rules object* returned by py_rules() (deviation-bounded derivation,
mc/gen/gramsent.py), rendered with the lexer's canonical layout, parsed by the engine and compared with
CPython's ast through a common neutral form. Mutation layer: every single-token deletion / replacement /
insertion of every sentence of the lower bound: accepted with the CPython tree, or Errors.Syntax whose summary
quotes a token of the input and a line that exists; always within 5 s.
"""
import ast
import re

from mc.core import pool
from mc.gen import gramsent
from mc.oracle import canon_ast, canon_own

ID = 'C11'
LEVEL = 'exploration'

_state = {}

MUT_TOKENS = ['a', '0', "'s'", '(', ')', '[', ']', ',', ':', '=', '+', 'if', 'else', 'not', 'in', 'lambda', 'def', 'return', '.', ':=', '\n', '\\', '$', 'é', '"']


def parser():
    if 'p' not in _state:
        from data.syntax.py_rules import py_rules
        from rogw.tranp.implements.syntax.tranp.syntax import SyntaxParser
        if not _state.get('compiled_grammar'):
            # history of a build script: this process has compiled the grammar file with the engine's own rules (another rule
            # set whose terminals share patterns with the Python rules) before it parses any Python text
            _state['compiled_grammar'] = True
            try:
                import os
                from data.syntax.gram_rules import gram_rules
                from data.syntax.gram_tokenizer import gram_tokenizer
                from mc.core.runner import REPO
                with open(os.path.join(REPO, 'data', 'syntax', 'py_gram.lark'), encoding='utf-8') as f:
                    SyntaxParser(gram_rules(), gram_tokenizer()).parse(f.read(), 'entry')
            except Exception:  # noqa  -- whether the grammar file compiles is C12's subject
                pass
        _state['p'] = SyntaxParser(py_rules())
    return _state['p']


def reference():
    if 'r' not in _state:
        from data.syntax.py_rules import py_rules
        from mc.oracle.cfg_ref import Recognizer
        _state['r'] = Recognizer(py_rules())
    return _state['r']


def in_grammar(text: str):
    """True/False by the reference recogniser over the real tokenizer's tokens; None if the text has no token list."""
    from rogw.tranp.errors import Errors
    try:
        toks = [t.string for t in pool.with_timeout(5, lambda: parser().tokenizer.parse(text))]
    except (Errors.Error, pool.CaseTimeout, Exception):  # noqa  lexical errors are judged on the engine's own path
        return None
    try:
        return pool.with_timeout(5, lambda: reference().accepts(toks, 'entry'))
    except (pool.CaseTimeout, RecursionError):
        return None


def op_classes(text: str) -> str:
    ops = sorted(set(re.findall(r'\b(?:or|and|not|in|is|if|else|lambda|for|while|def|elif|return|raise)\b|:=|[<>=!]=|[-+*/%<>.\[\](){}]', text)))
    return ' '.join(ops)[:60]


def judge(text: str, derived: bool):
    """Returns ('ok', n) | ('skip', why) | ('viol', sig, what)."""
    from rogw.tranp.errors import Errors
    try:
        want = _state['want'][text] if text in _state.get('want', {}) else canon_own.canon_py(text)
        if text in CANARIES:
            _state.setdefault('want', {})[text] = want
        py_ok = True
    except (SyntaxError, ValueError, RecursionError):
        py_ok = False
    except canon_ast.Unsupported as e:
        return ('skip', f'unsupported:{e}')
    try:
        tree = pool.with_timeout(5, lambda: parser().parse(text, 'entry'))
    except pool.CaseTimeout:
        return ('viol', ['no-termination', 'derived' if derived else 'mutated'], f'{text!r}: no result within 5 s')
    except Errors.Syntax as e:
        if derived:
            return ('viol', ['derived-sentence-rejected', op_classes(text)], f'{text!r} is derivable from the shipped grammar but the engine rejects it: {str(e)[:200]}')
        if in_grammar(text) is True:
            return ('viol', ['derivable-sentence-rejected', op_classes(text)], f'{text!r}: its token sequence is derivable from the shipped grammar (reference recogniser) but the engine rejects it: {str(e)[:200]}')
        if py_ok:
            return ('skip', 'outside-own-grammar')
        # error quality: token of the input + existing line
        msg = str(e.args[0]) if e.args else ''
        m = re.search(r"pass: (\d+)/(\d+), token: (.*)\n\((\d+)\) >>> (.*)\n", msg + '\n')
        lex = re.search(r"token: (.*), line: (\d+)", msg)
        if not m and lex:
            # lexical error: names the character and its line
            ch = ast.literal_eval(lex.group(1))
            if ch not in text or not (1 <= int(lex.group(2)) <= len(text.split('\n'))):
                return ('viol', ['syntax-error-token', 'lexical'], f'{text!r}: lexical error names {ch!r} line {lex.group(2)}')
            return ('ok-rejected', 0)
        if not m:
            return ('viol', ['syntax-error-format'], f'{text!r}: summary has no token/line: {msg[:200]!r}')
        tok = ast.literal_eval(m.group(3)) if m.group(3)[:1] in '"\'' else m.group(3)
        line_no = int(m.group(4))
        n_lines = len(text.split('\n'))
        if not (1 <= line_no <= n_lines):
            return ('viol', ['syntax-error-line', 'out-of-range'], f'{text!r}: reported line {line_no}, the input has {n_lines} lines')
        special = {'\\EOF', '\\INDENT', '\\DEDENT', '\\OP_UNARY_MINUS', '\n'}
        if tok not in special and tok not in text:
            return ('viol', ['syntax-error-token', 'not-in-input'], f'{text!r}: reported token {tok!r} does not occur in the input')
        return ('ok-rejected', 0)
    except Errors.Error as e:
        return ('viol', ['wrong-error-class', type(e).__name__], f'{text!r}: {type(e).__name__}: {str(e)[:160]}')
    except RecursionError:
        return ('viol', ['raw-exception', 'RecursionError', 'derived' if derived else 'mutated'], f'{text!r}: RecursionError')
    except Exception as e:  # noqa
        return ('viol', ['raw-exception', type(e).__name__, 'derived' if derived else 'mutated'], f'{text!r}: {type(e).__name__}: {str(e)[:160]}')
    if in_grammar(text) is False:
        return ('viol', ['accepted-outside-grammar', op_classes(text)], f'{text!r}: its token sequence is not derivable from the shipped grammar (reference recogniser) but the engine accepts it: {tree.simplify()!r}'[:600])
    if not py_ok:
        return ('skip', 'cpython-rejects')
    try:
        got = canon_own.canon_own(tree.simplify())
    except canon_own.Shape as e:
        return ('viol', ['tree-shape', str(e)[:40]], f'{text!r}: {e}; tree {tree.simplify()!r}')
    except (ValueError, TypeError, KeyError, IndexError) as e:
        return ('viol', ['tree-shape', type(e).__name__], f'{text!r}: the tree cannot be read ({type(e).__name__}: {e}); tree {tree.simplify()!r}'[:600])
    if got != want:
        dc = canon_ast.diff_class(want, got) or ('unknown',)
        return ('viol', ['tree-differs'] + [str(x) for x in dc], f'{text!r}: {canon_ast.first_diff(want, got)}\n   cpython: {want!r}\n   engine:  {got!r}')
    return ('ok', 1)


CANARIES = ['x = f(a, b)[0]\n', 'if a:\n    b\nc\n']   # brackets + a block indented differently from every other sentence (tabs)
MAX_VIOL_PER_BATCH = 20


CANARY_TOKENS = {
    'x = f(a, b)[0]\n': ['x', '=', 'f', '(', 'a', ',', 'b', ')', '[', '0', ']', '\n'],
    'if a:\n    b\nc\n': ['if', 'a', ':', '\n', '\\INDENT', 'b', '\n', '\\DEDENT', 'c', '\n'],
}


def canary_tokens(c: str):
    from rogw.tranp.errors import Errors
    try:
        got = [t.string for t in pool.with_timeout(5, lambda: parser().tokenizer.parse(c))]
    except (Errors.Error, pool.CaseTimeout) as e:
        return f'{type(e).__name__}'
    return None if got == CANARY_TOKENS[c] else f'tokens {got!r}'


def worker(batch):
    """Judges every sentence.  After every sentence that is not a derived one (mutated / lexeme layer: may be
    unbalanced, oddly indented, rejected half-way) the canaries are handled again by the same process: the verdict
    on a sentence must not depend on what was parsed before it (histories of length 2).  Level 2 = full parse and
    tree comparison of every canary, level 1 = token list of every canary."""
    out = []
    nv = 0
    for t, d, level in batch:
        if nv > MAX_VIOL_PER_BATCH:
            break   # the run has failed already; do not spend 5 s timeouts on the rest of the batch
        out.append((t, d, judge(t, d)))
        nv += out[-1][2][0] == 'viol'
        for c in CANARIES if level else []:
            if level >= 2:
                j = judge(c, True)
                bad = j[2] if j[0] == 'viol' else None
                sig = j[1][:1] if bad else []
            else:
                bad = canary_tokens(c)
                sig = ['tokens']
            if bad:
                out.append((c, True, ('viol', ['history-dependent'] + sig, f'after parsing {t!r}: {c!r}: {bad}', t)))
                nv += 1
                parser_reset()
                break
    return out


def parser_reset():
    _state.pop('p', None)


def mutations(tokens):
    idx = [i for i, t in enumerate(tokens) if t not in ('\\INDENT', '\\DEDENT')]
    for i in idx:
        yield tokens[:i] + tokens[i + 1:]
        for m in MUT_TOKENS:
            if m != tokens[i]:
                yield tokens[:i] + (m,) + tokens[i + 1:]
            yield tokens[:i] + (m,) + tokens[i:]


EXT = ['0', '5', '.', 'y', '_', '<', '>', '=', '!', '-', '*']
CONTEXTS = ['{}\n', 'x = {}\n', 'f({})\n', 'a + {} * b\n', '[{}, {}]\n', 'a.{}\n', 'if {}:\n\ta\n', 'a {} b\n', 'not {}\n']


def lexemes(rules):
    """Every terminal sample and every string terminal of the grammar, extended by one character on either side."""
    from mc.oracle.cfg_ref import Recognizer
    base = set(x for v in gramsent.SAMPLES.values() for x in v) | {'0.5', '10', 'None'}
    base |= {k for k in Recognizer(rules).keywords if not k.startswith('\\') and k.strip()}
    out = set(base)
    for b in sorted(base):
        for c in EXT:
            out.add(b + c)
            out.add(c + b)
    return sorted(out)


def run(ctx):
    from data.syntax.py_rules import py_rules
    rules = py_rules()
    n_e, n_s = (2, 2) if ctx.quick else (3, 2)
    alt = None
    derived = {}
    if not ctx.quick:
        # thorough: one more deviation with a smaller cost-0 leaf set to stay tractable
        alt = dict(gramsent.ALT_COST, atom=dict(gramsent.ALT_COST['atom'], string=1))
    for c, toks in gramsent.derive(rules, 'expr', n_e, **({'alt_cost': alt} if alt else {})):
        derived.setdefault(toks + ('\n',), c)
    for c, toks in gramsent.derive(rules, 'statement', n_s):
        derived.setdefault(toks, c)
    sents = [(gramsent.render(t), True, 0) for t in derived]
    ctx.log(f'{len(sents)} derived sentences')
    # mutation layer on the sentences with <= 1 deviation
    low = [t for t, c in derived.items() if c <= (1 if ctx.quick else 1)]
    muts = {}
    for t in low:
        for m in mutations(t):
            if m not in derived:
                muts[m] = min(muts.get(m, 9), derived[t])
    # parse-level canaries after every mutation of a 0-deviation sentence, token-level canaries after all others
    mut_sents = [(gramsent.render(m), False, 2 if muts[m] == 0 else 1) for m in sorted(muts)]
    if ctx.quick:
        mut_sents = mut_sents[::3]
    ctx.log(f'{len(mut_sents)} mutated sentences')
    lex = lexemes(rules)
    lex_sents = sorted(set(c.format(*([x] * c.count('{}'))) for x in lex for c in CONTEXTS))
    have = set(x[0] for x in sents)
    lex_sents = [(t, False, 2 if t.startswith('x = ') else 1) for t in lex_sents if t not in have]
    ctx.log(f'{len(lex_sents)} lexeme-boundary sentences ({len(lex)} lexemes x {len(CONTEXTS)} contexts)')
    allc = sents + mut_sents + lex_sents
    res = pool.pmap(worker, pool.chunked(allc, 400), workers=ctx.workers, rotate=ctx.seed)
    counts = {}
    nontriv = 0
    for r in res:
        for text, d, j in r:
            counts[j[0] if j[0] != 'skip' else f'skip:{j[1].split(":")[0]}'] = counts.get(j[0] if j[0] != 'skip' else f'skip:{j[1].split(":")[0]}', 0) + 1
            if j[0] == 'ok':
                nontriv += 1
            if j[0] == 'viol':
                ctx.violation(j[1], j[2], {'text': text, 'derived': d, 'prev': j[3] if len(j) > 3 else None})
    return {
        'evaluations': len(allc),
        'distinct_nontrivial': nontriv,
        'rule': f'all derivations of expr with <= {n_e} deviations and of statement with <= {n_s} deviations from the shipped py_rules() (deviation = one repeat instance, one present optional, a non-first identifier/literal sample, re-entering a symbol under expansion, a heavier atom alternative; every operator sample is free); terminals {gramsent.SAMPLES}; mutation layer: every single token deletion/replacement/insertion ({len(MUT_TOKENS)} tokens) of the sentences with <= 1 deviation{" (every third in quick)" if ctx.quick else ""}; after every mutated/lexeme sentence the canaries {CANARIES} are handled again by the same process (history of length 2: the verdict must not depend on the previous input): full parse + tree comparison after every mutation of a 0-deviation sentence and every "x = <lexeme>" sentence, token list after all others; lexeme-boundary layer: every terminal sample and string terminal extended by one character of {EXT} on either side, in {len(CONTEXTS)} contexts; every accepted/rejected verdict of the mutation and lexeme layers is compared with an independent context-free reference recogniser over the shipped Rules (mc/oracle/cfg_ref.py); non-trivial = accepted by both parsers and compared',
        'samples': [x[0] for x in sents[:3]] + [x[0] for x in sents[len(sents) // 2: len(sents) // 2 + 2]] + [x[0] for x in mut_sents[:2]],
        'history_pairs': {'parse_level': sum(1 for x in allc if x[2] == 2) * len(CANARIES), 'token_level': sum(1 for x in allc if x[2] == 1) * len(CANARIES)},
        'outcomes': counts,
        'exhaustive': True,
        'bound': f'expr <= {n_e} deviations, statement <= {n_s}',
    }


def replay(ctx, data):
    if data.get('prev') is not None:
        judge(data['prev'], False)
    j = judge(data['text'], data.get('derived', False))
    if j[0] == 'viol':
        ctx.violation(j[1], j[2], data)
