#!/usr/bin/env python3
"""Dev-time: run tools/try_seed.py for every mutation<k>.diff of a sub-agent directory.

Usage: tools/try_wave.py <dir> C02[,C15] [--tier quick]
"""
import glob
import os
import subprocess
import sys

VERIF = os.path.dirname(os.path.dirname(os.path.abspath(__file__)))
d, checks = sys.argv[1], sys.argv[2]
rest = sys.argv[3:]
for diff in sorted(glob.glob(os.path.join(d, 'mutation*.diff'))):
    k = os.path.basename(diff)[len('mutation'):-len('.diff')]
    demo = os.path.join(d, f'demo{k}.py')
    print(f'--- {diff}', flush=True)
    cmd = [sys.executable, os.path.join(VERIF, 'tools', 'try_seed.py'), diff, checks] + (['--demo', demo] if os.path.exists(demo) else []) + rest
    r = subprocess.run(cmd, capture_output=True, text=True)
    for line in r.stdout.splitlines():
        print(line[:260])
