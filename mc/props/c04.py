"""C04 -- output is deterministic and independent of session history.

Engine E1, stateless exploration with fork snapshots: the state is a live tranp session (memo tables, node
caches, symbol table with lazily evaluated symbols), so no state merging is attempted. Every sequence of
load / transpile / unload / submit operations over a pool of modules that share entry paths and local names
is executed up to the depth bound; a common prefix is shared by fork(). Oracle: every transpile inside a
history is byte-equal to the transpile of a fresh process; after unload nothing of the module remains;
no exception appears that the fresh baseline does not raise. Configurations: PYTHONHASHSEED in {0, 1, 5, 7, 9}.
"""
import json
import os
import subprocess
import sys
import tempfile

from mc.core import pool
from mc.core.runner import COMPAT, REPO, VERIF

ID = 'C04'
LEVEL = 'model_checking'

M0 = '''from collections.abc import Callable
from typing import Generic, TypeVar

T_Box = TypeVar('T_Box')

class Box(Generic[T_Box]):
	value: T_Box

	def __init__(self, value: T_Box) -> None:
		self.value = value

	def each(self, f: Callable[[T_Box], None]) -> None:
		f(self.value)

class IntBox(Box[int]):
	def size(self) -> int:
		return 1

K_Pair = TypeVar('K_Pair')
V_Pair = TypeVar('V_Pair')

class Pair(Generic[K_Pair, V_Pair]):
	key: K_Pair
	value: V_Pair

	def __init__(self, key: K_Pair, value: V_Pair) -> None:
		self.key = key
		self.value = value

class Named(Pair[str, int]):
	def label(self) -> str:
		return self.key

class Item:
	n: int

	def __init__(self, n: int) -> None:
		self.n = n

	def get(self) -> int:
		return self.n

def make(n: int) -> Item:
	x = n + 1
	return Item(x)

COUNT: int = 3
'''
M1 = '''from c04pool.m0 import Item, make, COUNT, Box, IntBox, Named

def run_box1() -> None:
	b = Box[int](1)
	b.each(lambda e: print(e))

def read_named(n: Named) -> int:
	# (two different type arguments reach the base class through the inherit list only)
	k = n.key
	v = n.value
	return v

def read_box(b: IntBox) -> int:
	# (a property declared with the type variable of the generic base class, read through the concrete subclass)
	return b.value

class Holder:
	item: Item

	def __init__(self, n: int) -> None:
		self.item = make(n)

	def get(self) -> int:
		return self.item.get() + COUNT

def make1(n: int) -> Holder:
	x = n * 2
	return Holder(x)

COUNT1: int = 4
'''
M2 = '''from c04pool.m1 import Holder, make1
from c04pool.m0 import Box

def run_box2() -> None:
	b = Box[str]('a')
	b.each(lambda e: print(e))

class Top:
	h: Holder

	def __init__(self, n: int) -> None:
		self.h = make1(n)

	def get(self) -> int:
		return self.h.get()

def make2(n: int) -> Top:
	x = n - 1
	return Top(x)

COUNT2: str = 's'
'''
M3 = '''from typing import Generic, TypeVar

T_Key = TypeVar('T_Key')
T_Value = TypeVar('T_Value')
T_Extra = TypeVar('T_Extra')
T_Zed = TypeVar('T_Zed')
T_Ma = TypeVar('T_Ma')
T_Mb = TypeVar('T_Mb')
T_Mc = TypeVar('T_Mc')

def pair_up(k: T_Key, v: T_Value, e: T_Extra, z: T_Zed) -> dict[T_Key, T_Value]:
	return {k: v}

class Slot(Generic[T_Key, T_Value, T_Extra]):
	key: T_Key
	value: T_Value

	def __init__(self, key: T_Key, value: T_Value) -> None:
		self.key = key
		self.value = value

	def swap(self, e: T_Extra, z: T_Zed) -> T_Zed:
		return z

	def choose(self, first: T_Zed, second: T_Ma, third: T_Mb, fourth: T_Mc) -> T_Mb:
		return third

	@classmethod
	def build(cls, one: T_Ma, two: T_Mb, three: T_Mc) -> T_Mc:
		return three

class Item:
	n: str

	def __init__(self, n: str) -> None:
		self.n = n

	def get(self) -> str:
		return self.n

def make(n: str) -> Item:
	x = n + 'x'
	return Item(x)

def wide(p0: int, p1: str, p2: float, p3: bool, p4: int, p5: str, p6: float, p7: bool, p8: int, p9: str, p10: int) -> float:
	return p2

def pick(alpha: int, beta: int) -> int:
	gamma = alpha + 1
	delta = beta + 2
	def inner(n: int) -> int:
		return n + delta + gamma + beta + alpha
	return inner(1)

COUNT: str = 'c'
MIXED = [1, None]
OTHER = [1.5, None]

def mixed(n: int) -> int:
	xs = [n, None]
	ys = ['s', n]
	return len(xs) + len(ys)
'''
MAIN_V = {
    # v0 and v1 have the same shape: a class, an operator expression and a constructor call sit on the same tree paths in
    # both, with other names and other types (what an interactive session sees when the next snippet is submitted)
    'v0': 'from enum import Enum\nfrom c04pool.m1 import make1\n\nclass Lv(Enum):\n\tMax = 8\n\nclass Acc:\n\tdef twice(self, n: int) -> int:\n\t\treturn n + n\n\ndef run(n: int) -> int:\n\tx = make1(n)\n\tt = n + n\n\ta = Acc()\n\tu = a.twice(n)\n\tm = Lv.Max.value\n\treturn x.get()\n',
    'v1': 'from enum import Enum\nfrom c04pool.m0x import make, wide\n\nclass Lv(Enum):\n\tMax = 8 + 40\n\nclass Ledger:\n\tdef twice(self, n: str) -> str:\n\t\treturn n + n\n\ndef run(n: str) -> str:\n\tx = make(n)\n\tt = n + n\n\ta = Ledger()\n\tu = a.twice(n)\n\tm = Lv.Max.value\n\tw = wide(1, \'a\', 1.5, True, 2, \'b\', 2.5, False, 3, \'c\', 4)\n\treturn x.get()\n',
    'bad': 'def run(n: int) -> int:\n\treturn (n +\n',
    # parses, fails while its symbols are collected (an annotation names an unknown type)
    'badtype': 'class Early:\n\tv: int\n\n\tdef __init__(self) -> None:\n\t\tself.v = 1\n\ndef run(n: Zz_unknown) -> int:\n\treturn 1\n',
    # loads, fails while it is transpiled (in the middle of a run of the long-lived transpiler and its procedures)
    'ill': 'from c04pool.m1 import make1\n\ndef first(values: list[int]) -> int:\n\treturn values[0]\n\ndef run(n: int) -> int:\n\tx = make1(n)\n\ty = [zz_undefined(v) for v in [x.get()]]\n\treturn y[0]\n',
}
# 'c04pool.m1' is a string prefix of 'c04pool.m1x' (its importer) and 'c04pool.m0' of 'c04pool.m0x' (unrelated to it):
# unloading or exporting one must not touch the other
POOL = {'c04pool.m0': M0, 'c04pool.m1': M1, 'c04pool.m1x': M2, 'c04pool.m0x': M3}
MODS = list(POOL)


def alphabet():
    ops = []
    for m in MODS:
        ops += [('load', m), ('transpile', m), ('unload', m)]
    for v in MAIN_V:
        ops.append(('submit', v))
    ops.append(('transpile', '__main__'))
    ops.append(('foreign', 'cvars'))
    return ops


FOREIGN_ENV = {'cvars': {'Item': 'CSP', 'Holder': 'CP'}}


def foreign_transpile():
    """Another session of the same process with another (legitimate) transpiler configuration: class names of the pool
    registered as C++ variable types through env.transpiler.cvars."""
    from mc.tranp.session import Session
    fs = Session({'__main__': MAIN_V['v0']}, cache=True, transpiler_env=FOREIGN_ENV)
    return fs.transpile('c04pool.m0')


def write_pool():
    """The pool modules live on disk (so that entry and symbol caches take part in the histories); __main__ is in memory."""
    from mc.tranp.session import ensure_workdir
    wd = ensure_workdir()
    os.makedirs(os.path.join(wd, 'c04pool'), exist_ok=True)
    for name, src in POOL.items():
        p = os.path.join(wd, name.replace('.', os.sep) + '.py')
        if not os.path.exists(p):
            with open(p, 'w') as f:
                f.write(src)
            os.utime(p, (1_700_000_000, 1_700_000_000))
    return wd


def new_session(cache=True):
    from mc.tranp.session import Session
    write_pool()
    s = Session({'__main__': MAIN_V['v0']}, cache=cache, template_override=True)
    s.warm()
    return s


def baselines():
    """Transpile of each module (and each main variant) in a fresh session per item, caching disabled (nothing restored)."""
    from mc.tranp.session import Session
    write_pool()
    out = {}
    for m in MODS:
        s = Session({'__main__': MAIN_V['v0']}, cache=False, template_override=True)
        try:
            out[m] = s.transpile(m)
        except Exception as e:  # noqa  -- judged in run(): every pool module is written to transpile
            out[m] = f'<raises {type(e).__name__}: {str(e)[:200]}>'
    out['foreign:cvars'] = Session({'__main__': MAIN_V['v0']}, cache=False, transpiler_env=FOREIGN_ENV).transpile('c04pool.m0')
    for v, src in MAIN_V.items():
        s = Session({'__main__': src}, cache=False, template_override=True)
        try:
            out[f'__main__:{v}'] = s.transpile('__main__')
        except Exception as e:  # noqa
            out[f'__main__:{v}'] = f'<raises {type(e).__name__}>'
    return out


def apply(state, op, base):
    """Apply one operation to the live session. Returns list of (signature, what)."""
    from rogw.tranp.errors import Errors
    from rogw.tranp.syntax.ast.entrypoints import Entrypoints
    s = state['session']
    kind, arg = op
    viol = []
    try:
        if kind == 'load':
            s.load(arg)
        elif kind == 'unload':
            s.unload(arg)
            left = []
            if s.db.has_module(arg):
                left.append('symbols')
            if arg in s.get(Entrypoints)._Entrypoints__entrypoints:
                left.append('entrypoint')
            if arg in [m.path for m in s.modules.loaded()]:
                left.append('module')
            if s.db.completed(arg):
                left.append('completed-flag')
            if left:
                viol.append((['unload-leaves', '+'.join(left)], f'after unload({arg}) these remain: {left}'))
        elif kind == 'submit':
            state['main'] = arg
            s.submit('__main__', MAIN_V[arg])
        elif kind == 'foreign':
            got = foreign_transpile()
            if got != base['foreign:cvars']:
                viol.append((['output-depends-on-history', 'foreign-session'], 'a second session with env.transpiler.cvars transpiles c04pool.m0 differently from a fresh process with that configuration'))
        elif kind == 'transpile':
            got = s.transpile(arg)
            key = arg if arg != '__main__' else f'__main__:{state["main"]}'
            want = base[key]
            if got != want:
                a, b = want.split('\n'), got.split('\n')
                i = next((k for k in range(min(len(a), len(b))) if a[k] != b[k]), min(len(a), len(b)))
                viol.append((['output-depends-on-history', 'main' if arg == '__main__' else 'module'], f'transpile({arg}) line {i + 1}: fresh {a[i] if i < len(a) else "<eof>"!r}, here {b[i] if i < len(b) else "<eof>"!r}'))
    except Exception as e:  # noqa
        key = None
        if kind == 'transpile' and arg == '__main__':
            key = f'__main__:{state["main"]}'
        elif kind == 'submit':
            key = f'__main__:{arg}'
        expected = base.get(key, '') if key else ''
        if isinstance(expected, str) and expected.startswith('<raises') and (type(e).__name__ in expected or isinstance(e, Errors.Error)):
            # the fresh baseline rejects this source as well
            state['broken'] = True
        else:
            inner = type(e.__cause__).__name__ if getattr(e, '__cause__', None) is not None else ''
            viol.append((['exception-only-in-history', type(e).__name__, inner, kind], f'{op} raised {type(e).__name__}: {str(e)[:200]}'))
    return viol


def explore(state, hist, depth, base, out_path, counters):
    """Fork-tree DFS: every child applies one operation on a copy-on-write snapshot of the interpreter."""
    if depth == 0:
        return
    for op in alphabet():
        sys.stdout.flush()
        pid = os.fork()
        if pid == 0:
            code = 0
            try:
                from mc.tranp.session import adopt_workdir
                adopt_workdir()
                viol = apply(state, op, base)
                with open(out_path, 'a') as f:
                    f.write(json.dumps({'t': 1, 'viol': [[sig, what, {'history': hist + [list(op)]}] for sig, what in viol]}) + '\n')
                if not viol:
                    explore(state, hist + [list(op)], depth - 1, base, out_path, counters)
            except BaseException as e:  # noqa
                with open(out_path, 'a') as f:
                    f.write(json.dumps({'t': 0, 'harness_error': f'{type(e).__name__}: {e}', 'history': hist + [list(op)]}) + '\n')
                code = 3
            finally:
                os._exit(code)
        else:
            os.waitpid(pid, 0)


PRELOADED = [['load', m] for m in POOL] + [['transpile', '__main__']]   # the non-initial start state: everything loaded


def worker(task):
    first, depth, base = task[:3]
    prefix = task[3] if len(task) > 3 else []
    state = {'session': new_session(), 'main': 'v0'}
    for op in prefix:
        v = apply(state, tuple(op), base)
        if v:
            return [{'t': 1, 'viol': [[sig, what, {'history': [list(o) for o in prefix]}] for sig, what in v]}]
    fd, out_path = tempfile.mkstemp(prefix='c04-', suffix='.jsonl')
    os.close(fd)
    try:
        viol = apply(state, tuple(first), base)
        rows = [{'t': 1, 'viol': [[sig, what, {'history': [list(o) for o in prefix] + [list(first)]}] for sig, what in viol]}]
        if not viol:
            explore(state, [list(o) for o in prefix] + [list(first)], depth - 1, base, out_path, None)
        with open(out_path) as f:
            rows += [json.loads(l) for l in f if l.strip()]
    finally:
        os.remove(out_path)
    return rows


def seed_baselines():
    """Baselines computed by separate interpreters with different hash seeds."""
    code = ('import sys, json\nsys.path.insert(0, %r)\nfrom mc.core.runner import setup_env\nsetup_env()\n'
            'from mc.props import c04\nprint(json.dumps(c04.baselines()))\n') % VERIF
    outs = {}
    procs = {}
    for seed in ('0', '1', '5', '7', '9'):
        env = dict(os.environ, PYTHONHASHSEED=seed, PYTHONPATH=os.pathsep.join([COMPAT, REPO, VERIF]), PYTHONDONTWRITEBYTECODE='1')
        procs[seed] = subprocess.Popen([sys.executable, '-c', code], stdout=subprocess.PIPE, stderr=subprocess.PIPE, text=True, env=env)
    for seed, pr in procs.items():
        so, se = pr.communicate(timeout=600)
        if pr.returncode != 0:
            from mc.core.runner import HarnessError
            raise HarnessError(f'baseline subprocess failed (seed {seed}): {se[-800:]}')
        outs[seed] = json.loads(so.strip().split('\n')[-1])
    return outs


M4 = 'from proj.m0 import Item, COUNT\nfrom proj.m1 import Holder\n\ndef make4(n: int) -> Item:\n\treturn Item(n + COUNT)\n\ndef hold4(h: Holder) -> int:\n\treturn h.get()\n'


def order_sources():
    srcs = {name.split('.')[1]: src.replace('c04pool.', 'proj.') for name, src in POOL.items()}
    srcs['m4'] = M4   # a second importer of m0 and of m1: two targets share their imports
    return srcs


def order_task(task):
    """One CLI run (bin/transpile) with the targets listed in the given order; returns the generated texts."""
    import shutil
    from mc.tranp.workspace import Workspace, scratch_root
    perm, warm = task
    root = scratch_root('c04-order-')
    try:
        ws = Workspace.create(os.path.join(root, 'ws'), input_globs=tuple(f'proj/{m}.py' for m in perm))
        for name, src in order_sources().items():
            ws.write_source(f'proj/{name}.py', src, 1_700_000_000)
        if warm:
            # history: a first run with the reversed order leaves its caches and outputs behind
            ws.write_config(tuple(f'proj/{m}.py' for m in reversed(perm)), ('out/',))
            ws.run(force=True)
            ws.write_config(tuple(f'proj/{m}.py' for m in perm), ('out/',))
        r = ws.run(force=True)
        return list(perm), warm, list(r), ws.outputs()
    finally:
        shutil.rmtree(root, ignore_errors=True)


def target_orders(ctx):
    import itertools
    names = [n for n in order_sources() if not (ctx.quick and n == 'm0x')]
    perms = list(itertools.permutations(names))
    tasks = [(p, False) for p in perms] + [(p, True) for p in perms]
    res = pool.pmap(order_task, tasks, workers=ctx.workers)
    ref = None
    for perm, warm, r, outs in res:
        rep = {'target_order': perm, 'warm': warm}
        if r[0] != 'ok':
            ctx.violation(['target-order', 'run-fails', r[1]], f'targets {perm}{" after a run in reverse order" if warm else ""}: {r[1]}: {r[2][:160]}', rep)
            continue
        if ref is None:
            ref = outs
            if len(outs) != len(names):
                ctx.violation(['target-order', 'outputs-missing'], f'targets {perm}: {sorted(outs)} generated for {len(names)} targets', rep)
            continue
        if outs != ref:
            diff = sorted(k for k in set(outs) | set(ref) if outs.get(k) != ref.get(k))
            ctx.violation(['target-order', 'output-differs', 'warm' if warm else 'cold'], f'targets listed as {perm}{" after a run in reverse order" if warm else ""}: {diff} differ from the outputs for the order {list(perms[0])}', rep)
    return len(tasks)


def run(ctx):
    depth = int(os.environ.get('C04_DEPTH', 3 if ctx.quick else 4))
    n_orders = target_orders(ctx)
    by_seed = seed_baselines()
    base = by_seed['0']
    for k in MODS:
        if base[k].startswith('<raises'):
            ctx.violation(['fresh-transpile-fails', k.split('.')[1], base[k].split(':')[0][8:]], f'{k} does not transpile in a fresh process: {base[k]}', {'module': k})
    for seed, b in by_seed.items():
        for k in base:
            if b[k] != base[k]:
                ctx.violation(['hash-seed-changes-output', k.split(':')[0]], f'PYTHONHASHSEED={seed}: output of {k} differs from seed 0', {'seed': seed, 'module': k})
    ops = alphabet()
    # second level as work units for a better balance
    tasks = [(list(op), depth, base) for op in ops]
    # the same exploration from a non-initial state (every pool module and the main module loaded), one level shallower
    tasks += [(list(op), depth - 1, base, PRELOADED) for op in ops]
    warm = new_session()
    for m in MODS:
        try:
            warm.load(m)
        except Exception as e:  # noqa  -- a pool module that cannot even be loaded (with the cache on) is a finding, not a harness error
            ctx.violation(['fresh-load-fails', m.split('.')[1], type(e).__name__], f'{m} cannot be loaded in a fresh session with the cache enabled: {type(e).__name__}: {str(e)[:200]}', {'module': m})
            return {'states': 1, 'transitions': 0, 'traces_validated_against_impl': 0, 'samples': [], 'max_depth': 0, 'bound': 'aborted: a pool module does not load', 'exhaustive': False}
    res = pool.pmap(worker, tasks, workers=ctx.workers, rotate=ctx.seed)
    transitions = 0
    samples = []
    for rows in res:
        for r in rows:
            if 'harness_error' in r:
                from mc.core.runner import HarnessError
                raise HarnessError(f'{r["harness_error"]} after {r["history"]}')
            transitions += 1
            for sig, what, rep in r['viol']:
                ctx.violation(sig, f'{rep["history"]}: {what}', rep)
    samples = [[list(ops[0]), list(ops[4]), list(ops[2])], [['submit', 'v1'], ['transpile', '__main__'], ['submit', 'bad'], ['submit', 'v0']]]
    return {
        'states': transitions + 1,
        'transitions': transitions,
        'traces_validated_against_impl': transitions,
        'samples': samples,
        'max_depth': depth,
        'bound': f'all operation sequences of length <= {depth} over {len(ops)} operations (load/transpile/unload x {MODS}, submit x {list(MAIN_V)}, transpile __main__, a foreign session with env.transpiler.cvars={FOREIGN_ENV["cvars"]} transpiling m0); the same from the state in which every module is loaded already (length <= {depth - 1}); sequences are cut at the first violating operation; hash seeds 0/1/5/7/9 for the baselines; CLI layer: all {n_orders // 2} orders of listing the targets (pool modules{" without m0x" if ctx.quick else ""} + m4, a second importer of m0 and m1) in config.yml, each on a fresh workspace and after a run in reverse order ({n_orders} forced CLI runs), outputs byte-equal',
        'exhaustive': True,
        'states_note': 'stateless exploration: every history is its own state (no merging, see DESIGN 1)',
        'alphabet': [list(o) for o in ops],
    }


def replay(ctx, data):
    if 'target_order' in data:
        target_orders(ctx)
        return
    if 'history' not in data:
        return
    base = baselines()
    state = {'session': new_session(), 'main': 'v0'}
    for op in data['history']:
        for sig, what in apply(state, tuple(op), base):
            ctx.violation(sig, what, data)
