"""C03 -- inferred static types equal the types values have at run time.

Engine E2: the PyProg programs of C01 (same complete enumeration). On the CPython side every load-context
sub-expression is wrapped in a recorder keyed by its source span; the entry functions run on the full argument
grid; describe(type(value)) is compared with the description of Reflections.type_of(node) for the tranp node
with the same span. Unknown in an inferred type of a reached node is a violation (totality).
"""
import ast
import re

from mc.core import pool
from mc.gen import pyprog
from mc.oracle import cpprun
from mc.oracle.cpprun import Entry

ID = 'C03'
LEVEL = 'exploration'


# ----------------------------------------------------------------------------- runtime side

class Recorder(ast.NodeTransformer):
    """Wrap every load-context expression in rec_((l, c, el, ec), expr). Annotations, decorators, bases are left alone."""

    def wrap(self, node):
        key = ast.Tuple(elts=[ast.Constant(node.lineno), ast.Constant(node.col_offset), ast.Constant(node.end_lineno), ast.Constant(node.end_col_offset)], ctx=ast.Load())
        call = ast.Call(func=ast.Name(id='rec_', ctx=ast.Load()), args=[key, node], keywords=[])
        return ast.copy_location(call, node)

    def generic_visit(self, node):
        return super().generic_visit(node)

    def visit_FunctionDef(self, node):
        node.body = [self.visit(s) for s in node.body]
        node.args.defaults = [self.visit(d) for d in node.args.defaults]
        return node

    def visit_ClassDef(self, node):
        node.body = [self.visit(s) for s in node.body]
        return node

    def visit_AnnAssign(self, node):
        if node.value is not None:
            node.value = self.visit(node.value)
        return node

    def visit_Lambda(self, node):
        node.body = self.visit(node.body)
        return self.wrap(node)

    def visit_ImportFrom(self, node):
        return node

    def visit_ExceptHandler(self, node):
        node.body = [self.visit(s) for s in node.body]
        return node

    def visit_Starred(self, node):
        node.value = self.visit(node.value)
        return node

    def visit_keyword(self, node):
        node.value = self.visit(node.value)
        return node

    def visit_Call(self, node):
        # super() relies on the compiler's __class__ cell and must stay a bare call
        if isinstance(node.func, ast.Name) and node.func.id == 'super':
            return node
        self.generic_visit(node)
        return self.wrap(node)

    def visit_Attribute(self, node):
        if not isinstance(node.ctx, ast.Load):
            node.value = self.visit(node.value)
            return node
        self.generic_visit(node)
        return self.wrap(node)

    def visit_Subscript(self, node):
        if not isinstance(node.ctx, ast.Load):
            node.value = self.visit(node.value)
            node.slice = self.visit(node.slice)
            return node
        self.generic_visit(node)
        return self.wrap(node)

    def visit_Slice(self, node):
        self.generic_visit(node)
        return node

    def visit_Name(self, node):
        return self.wrap(node) if isinstance(node.ctx, ast.Load) else node

    def visit_Tuple(self, node):
        if not isinstance(node.ctx, ast.Load):
            return node
        self.generic_visit(node)
        return self.wrap(node)

    def visit_List(self, node):
        if not isinstance(node.ctx, ast.Load):
            return node
        self.generic_visit(node)
        return self.wrap(node)

    def _expr(self, node):
        self.generic_visit(node)
        return self.wrap(node)

    visit_BinOp = visit_BoolOp = visit_UnaryOp = visit_Compare = visit_IfExp = visit_Constant = visit_Dict = visit_ListComp = visit_DictComp = _expr

    def visit_comprehension(self, node):
        node.iter = self.visit(node.iter)
        node.ifs = [self.visit(i) for i in node.ifs]
        return node


def describe(v, depth=0) -> str | None:
    """Type description of a run-time value in tranp's notation; None for values that are not data (callables, classes, views)."""
    import enum
    if v is None:
        return 'None'
    if isinstance(v, bool):
        return 'bool'
    if isinstance(v, enum.Enum):
        return type(v).__name__
    if isinstance(v, int):
        return 'int'
    if isinstance(v, float):
        return 'float'
    if isinstance(v, str):
        return 'str'
    if isinstance(v, list):
        subs = {describe(x, depth + 1) for x in v}
        subs.discard(None)
        if not subs:
            return 'list<?>'
        return f'list<{_join(subs)}>'
    if isinstance(v, dict):
        ks = {describe(x, depth + 1) for x in v.keys()}
        vs = {describe(x, depth + 1) for x in v.values()}
        if not ks:
            return 'dict<?, ?>'
        return f'dict<{_join(ks)}, {_join(vs)}>'
    if isinstance(v, tuple):
        return 'tuple<' + ', '.join(describe(x, depth + 1) or '?' for x in v) + '>'
    if isinstance(v, type) or callable(v):
        return None
    if type(v).__module__ in ('builtins', 'collections.abc', 'enum'):
        return None   # range, enumerate, dict views, ...
    # instance of a user class: the static type may be any class of its MRO (subtype polymorphism)
    return '|'.join(c.__name__ for c in type(v).__mro__ if c is not object and c.__module__ not in ('enum',))


def _join(subs):
    subs = {s for s in subs if s}
    if len(subs) == 1:
        return next(iter(subs))
    # several element types observed: merge wildcards, otherwise report the union
    non_wild = {s for s in subs if '?' not in s}
    if len(non_wild) == 1:
        return next(iter(non_wild))
    return 'Union<' + ', '.join(sorted(subs)) + '>'


def _parse_type(text: str):
    """'dict<str, Union<int, None>>' -> ('dict', [('str', []), ('Union', [('int', []), ('None', [])])])."""
    text = text.strip()
    if '<' not in text:
        return (text, [])
    name, rest = text.split('<', 1)
    rest = rest[:-1] if rest.endswith('>') else rest
    args, depth, cur = [], 0, ''
    for ch in rest:
        if ch == '<':
            depth += 1
        elif ch == '>':
            depth -= 1
        if ch == ',' and depth == 0:
            args.append(cur)
            cur = ''
        else:
            cur += ch
    if cur.strip():
        args.append(cur)
    return (name.strip(), [_parse_type(a) for a in args])


def _type_matches(inf, run) -> bool:
    """Structural comparison: a Union is a set of members (the inferred one may have more members than the values observed);
    '?' in the run-time description (empty container) matches anything; 'A|B' (a user class and its bases) matches either name."""
    iname, iargs = inf
    rname, rargs = run
    if rname == '?':
        return True
    if iname == 'Union':
        runs = rargs if rname == 'Union' else [run]
        return all(any(_type_matches(m, r) for m in iargs) for r in runs)
    if rname == 'Union':
        return False
    if iname not in rname.split('|'):
        return False
    if not rargs and iargs and 'Generic' in rname.split('|'):
        # an instance of a user-defined generic class does not carry its type arguments at run time; they are judged through
        # the values read from it (fields, method results)
        return True
    if len(iargs) != len(rargs):
        return not rargs and not iargs
    return all(_type_matches(x, y) for x, y in zip(iargs, rargs))


def matches(inferred: str, runtime: str) -> bool:
    return _type_matches(_parse_type(inferred), _parse_type(runtime))


def run_recorded(source: str, entries, extra=None):
    import sys
    import types
    for name, src in (extra or {}).items():
        m = types.ModuleType(name)
        exec(compile(src, f'<{name}>', 'exec'), m.__dict__)
        sys.modules[name] = m
    try:
        return _run_recorded(source, entries)
    finally:
        for name in (extra or {}):
            sys.modules.pop(name, None)


def _run_recorded(source: str, entries):
    tree = ast.parse(source)
    tree = Recorder().visit(tree)
    ast.fix_missing_locations(tree)
    seen: dict = {}

    def rec(key, value):
        d = describe(value)
        if d is not None:
            seen.setdefault(key, set()).add(d)
        else:
            seen.setdefault(key, set())
        return value
    ns = {'rec_': rec, '__name__': 'prog'}
    exec(compile(tree, '<prog>', 'exec'), ns)
    for e in entries:
        fn = ns[e.name]
        for vec in e.vectors:
            args = [cpprun.py_value(v, kind, ns) for v, (_, kind) in zip(vec, e.params)]
            try:
                fn(*args)
            except Exception:  # noqa
                pass
    return seen


# ----------------------------------------------------------------------------- tranp side

def inferred_table(source: str, extra=None):
    """{(l, c, el, ec): [(node class, description)]} for every node with a span; raises the tranp error if the module is rejected."""
    from mc.tranp.session import Session
    from rogw.tranp.semantics.reflection.helper.naming import ClassShorthandNaming
    s = Session(dict(extra or {}, prog=source))
    mod = s.load('prog')
    refl = s.reflections
    table = {}
    for node in mod.entrypoint.procedural():
        sm = node.source_map
        (bl, bc), (el, ec) = sm['begin'], sm['end']
        if bl == 0:
            continue
        key = (bl, bc - 1, el, ec - 1)
        try:
            desc = ClassShorthandNaming.domain_name_for_debug(refl.type_of(node))
            desc = re.sub(r'\b[A-Za-z_]\w*=', '', desc)   # 'IntList=list<int>': a type alias is described as alias=actual
        except Exception as e:  # noqa
            desc = f'<raises {type(e).__name__}>'
        table.setdefault(key, []).append((type(node).__name__, desc))
    return table


SKIP_CLASSES = {'Argument', 'Terminal', 'Empty', 'Proxy', 'Parameter', 'Group', 'Lambda', 'Spread'}


def judge(prog: pyprog.Program):
    from rogw.tranp.errors import Errors
    res = {'nodes': 0, 'reached': 0, 'unreached': 0, 'viol': [], 'descs': set(), 'rejected': 0}
    try:
        table = inferred_table(prog.source, prog.extra)
        progs = [prog]
    except Errors.Error:
        # localise: per-function modules; what the transpiler rejects is C01's business, not C03's
        progs = []
        for name, _, _ in prog.functions:
            single = prog.only([name])
            try:
                inferred_table(single.source, single.extra)
                progs.append(single)
            except Errors.Error:
                res['rejected'] += 1
            except Exception:  # noqa
                res['rejected'] += 1
        table = None
    for p in progs:
        tbl = table if table is not None else inferred_table(p.source, p.extra)
        seen = run_recorded(p.source, p.entries, p.extra)
        lines = p.source.split('\n')
        # map line -> entry function tag
        owner = {}
        cur = None
        tags = {n: e.tag for n, _, e in p.functions}
        for i, ln in enumerate(lines, 1):
            m = re.match(r'def (\w+)\(', ln)
            if m:
                cur = m.group(1)
            elif ln and not ln[0].isspace() and not ln.startswith('def '):
                cur = None if not ln.startswith(('\t', ' ')) else cur
            owner[i] = cur
        for key, nodes in tbl.items():
            if key not in seen:
                continue
            runtime = seen[key]
            text = lines[key[0] - 1][key[1]:key[3]] if key[0] == key[2] else lines[key[0] - 1][key[1]:] + '...'
            for cls, desc in nodes:
                if cls in SKIP_CLASSES:
                    continue
                res['nodes'] += 1
                if not runtime:
                    res['unreached'] += 1
                    continue
                res['reached'] += 1
                res['descs'].add(desc)
                fn = owner.get(key[0])
                tag = tags.get(fn, 'helper')
                rep = {'program': (p.only([fn]) if fn in tags else p).to_json(), 'span': list(key)}
                if 'Unknown' in desc or desc.startswith('<raises'):
                    res['viol'].append((['not-total', cls, desc if desc.startswith('<') else 'Unknown', tag], f'{text!r} ({cls}) in {fn}: inferred {desc}, run-time {sorted(runtime)}', rep))
                    continue
                bad = [r for r in runtime if not matches(desc, r)]
                if bad:
                    res['viol'].append((['type-differs', cls, f'{_shape(desc)}!={_shape(bad[0])}', tag], f'{text!r} ({cls}) in {fn}: inferred {desc}, run-time {sorted(runtime)}', rep))
    res['descs'] = sorted(res['descs'])
    return res


def _shape(d: str) -> str:
    return re.sub(r'\b(?!int\b|str\b|bool\b|float\b|list\b|dict\b|tuple\b|None\b|Union\b)[A-Za-z_]\w*', 'C', d.split('|')[0])[:40]


def numeric_chain_programs(quick: bool, per_module: int = 120):
    """C03 only: chains of three numeric operands over + - * / % with int and float operands, bare and parenthesised.
    (int / int is true division in Python: outside C01's agreed subset, but its *type* is determined: float.)"""
    import itertools
    operands = ['a', 'b', 'x', '2', '1.5']
    ops = ['+', '-', '*', '/', '%']
    env = {'a': 3, 'b': 2, 'x': 1.5}
    fns = []
    k = 0
    for o1, o2, o3 in itertools.product(operands, repeat=3):
        if quick and (o1, o2, o3).count('2') + (o1, o2, o3).count('1.5') > 1:
            continue
        for p1, p2 in itertools.product(ops, repeat=2):
            for text in (f'{o1} {p1} {o2} {p2} {o3}', f'{o1} {p1} ({o2} {p2} {o3})'):
                try:
                    rt = type(eval(text, {}, env)).__name__
                except Exception:  # noqa
                    continue
                name = f'n{k}'
                k += 1
                src = f'def {name}(a: int, b: int, x: float) -> {rt}:\n\tv = {text}\n\treturn v\n\n'
                fns.append((name, src, Entry(name, [('a', 'int'), ('b', 'int'), ('x', 'float')], vectors=[(3, 2, 1.5), (1, 3, 0.5)], tag=f'num:{p1}{p2}')))
    for i in range(0, len(fns), per_module):
        yield pyprog.Program(f'num{i // per_module}', pyprog.HEADER, fns[i:i + per_module], layer='num')


ITER_PRELUDE = pyprog.HEADER + '''
class Countdown:
	n: int

	def __init__(self, n: int) -> None:
		self.n = n

	def __iter__(self) -> 'Countdown':
		return self

	def __next__(self) -> int:
		if self.n <= 0:
			raise StopIteration()
		self.n -= 1
		return self.n

class Bag:
	items: list[str]

	def __init__(self) -> None:
		self.items = ['p', 'q']

	def __iter__(self) -> Iterator[str]:
		return iter(self.items)

'''


def iterator_programs():
    fns = []

    def add(name, params, ret, body, vectors):
        src = f'def {name}({", ".join(f"{n}: {t}" for n, t in params)}) -> {ret}:\n' + '\n'.join('\t' + l for l in body.split('\n')) + '\n\n'
        fns.append((name, src, Entry(name, [(n, t) for n, t in params], vectors=vectors, tag=f'iter:{name}')))
    add('it_for', [('a', 'int')], 'int', 't = 0\nfor tick in Countdown(a):\n\tt += tick\nreturn t', [(3,), (0,)])
    add('it_comp', [('a', 'int')], 'list[int]', 'ticks = [tick for tick in Countdown(a)]\nreturn ticks', [(3,)])
    add('it_bag', [('a', 'int')], 'str', "s = ''\nfor item in Bag():\n\ts = s + item\nreturn s", [(1,)])
    add('it_bag_comp', [('a', 'int')], 'list[str]', 'return [item for item in Bag()]', [(1,)])
    yield pyprog.Program('iter0', ITER_PRELUDE.replace('from collections.abc import Callable', 'from collections.abc import Callable, Iterator'), fns, layer='iter')


RECV_PRELUDE = pyprog.HEADER.replace('from enum import Enum', 'from enum import Enum\nfrom typing import TypeAlias') + '''
class Row:
	n: int

	def __init__(self, n: int) -> None:
		self.n = n

IntList: TypeAlias = list[int]
RowList: TypeAlias = list[Row]
StrIntDict: TypeAlias = dict[str, int]

class Holder:
	items: list[int]
	rows: list[Row]
	table: dict[str, int]

	def __init__(self, a: int) -> None:
		self.items = [a, 2, 3]
		self.rows = [Row(a), Row(2)]
		self.table = {'k': a}

'''


def receiver_access_programs():
    """Product: how a container is reached (plain, Optional, TypeAlias, attribute, nested) x how it is accessed."""
    list_access = [('index0', '{E}', 'return {r}[0]'), ('index-var', '{E}', 'i = 1\nreturn {r}[i]'), ('slice', 'list[{E}]', 'return {r}[0:2]'), ('len', 'int', 'return len({r})'),
                   ('for', 'int', 't = 0\nfor v in {r}:\n\tw = v\n\tt += 1\nreturn t'), ('comp', 'list[{E}]', 'return [v for v in {r}]'), ('copy', 'list[{E}]', 'return {r}.copy()'),
                   ('pop', '{E}', 'return {r}.pop()'), ('local-alias', '{E}', 'ys = {r}\nreturn ys[0]'), ('index-attr', 'int', 'x = {r}[0]\nreturn 1')]
    dict_access = [('index', 'int', "return {r}['k']"), ('for-keys', 'int', 't = 0\nfor k in {r}.keys():\n\tw = k\n\tt += 1\nreturn t'),
                   ('for-items', 'int', 't = 0\nfor k, v in {r}.items():\n\tt += v\nreturn t'), ('values-comp', 'list[int]', 'return [v for v in {r}.values()]'), ('in', 'bool', "return 'k' in {r}"),
                   ('local-alias', 'int', "d2 = {r}\nreturn d2['k']")]
    recv = [('plain', 'list[int]', 'int', '[a, 2, 3]', 'r'), ('optional', 'list[int] | None', 'int', '[a, 2, 3]', 'r'), ('alias', 'IntList', 'int', '[a, 2, 3]', 'r'),
            ('plain-obj', 'list[Row]', 'Row', '[Row(a), Row(2)]', 'r'), ('optional-obj', 'list[Row] | None', 'Row', '[Row(a), Row(2)]', 'r'), ('alias-obj', 'RowList', 'Row', '[Row(a), Row(2)]', 'r'),
            ('attr', 'Holder', 'int', 'Holder(a)', 'r.items'), ('attr-obj', 'Holder', 'Row', 'Holder(a)', 'r.rows'), ('nested', 'list[list[int]]', 'int', '[[a, 2, 3], [4, 5]]', 'r[0]'),
            ('optional-float', 'list[float] | None', 'float', '[1.5, 2.5, 3.5]', 'r'),
            # the other spelling of an optional: None first
            ('none-first', 'None | list[int]', 'int', '[a, 2, 3]', 'r'), ('none-first-obj', 'None | list[Row]', 'Row', '[Row(a), Row(2)]', 'r')]
    drecv = [('plain', 'dict[str, int]', "{'k': a}", 'r'), ('optional', 'dict[str, int] | None', "{'k': a}", 'r'), ('alias', 'StrIntDict', "{'k': a}", 'r'), ('attr', 'Holder', 'Holder(a)', 'r.table')]
    fns = []

    def add(tag, ptype, ret, body, arg):
        k = len(fns) // 2
        src_u = f'def u{k}(r: {ptype}) -> {ret}:\n' + '\n'.join('\t' + l for l in body.split('\n')) + '\n\n'
        src_e = f'def e{k}(a: int) -> int:\n\tu{k}({arg})\n\treturn a\n\n'
        fns.append((f'u{k}', src_u, Entry(f'u{k}', [('r', 'int')], vectors=[], tag=f'recv:{tag}')))
        fns.append((f'e{k}', src_e, Entry(f'e{k}', [('a', 'int')], vectors=[(1,), (3,)], tag=f'recv:{tag}')))
    for rname, ptype, elem, arg, rexpr in recv:
        for aname, ret, body in list_access:
            add(f'{rname}:{aname}', ptype, ret.format(E=elem), body.format(r=rexpr), arg)
    for rname, ptype, arg, rexpr in drecv:
        for aname, ret, body in dict_access:
            add(f'dict-{rname}:{aname}', ptype, ret, body.format(r=rexpr), arg)
    # an optional object in both spellings: attribute and method access through it
    for rname, ptype in (('obj-optional', 'Row | None'), ('obj-none-first', 'None | Row')):
        add(f'{rname}:attr', ptype, 'int', 'v = r.n\nreturn v', 'Row(a)')
        add(f'{rname}:local', ptype, 'int', 'x = r\nw = x.n\nreturn w', 'Row(a)')
    per = 40
    for i in range(0, len(fns), per):
        yield pyprog.Program(f'recv{i // per}', RECV_PRELUDE, fns[i:i + per], layer='recv')


def same_shape_module(cls: str, ftype: str, fval: str) -> str:
    return f'class {cls}:\n\tr: {ftype}\n\n\tdef __init__(self) -> None:\n\t\tself.r = {fval}\n\n\tdef area(self) -> {ftype}:\n\t\treturn self.r\n\ndef make_{cls.lower()}() -> {cls}:\n\treturn {cls}()\n'


def cross_module_programs():
    """Classes that sit at the same position of their (same-shaped) modules, used together in one function."""
    extra = {'c03m_a': same_shape_module('Circle', 'int', '1'), 'c03m_b': same_shape_module('Label', 'str', "'s'"), 'c03m_c': same_shape_module('Plate', 'float', '1.5')}
    prelude = pyprog.HEADER + 'from c03m_a import Circle, make_circle\nfrom c03m_b import Label, make_label\nfrom c03m_c import Plate, make_plate\n\nclass Local:\n\tr: bool\n\n\tdef __init__(self) -> None:\n\t\tself.r = True\n\n\tdef area(self) -> bool:\n\t\treturn self.r\n\n'
    names = ['Circle', 'Label', 'Plate', 'Local']
    fns = []

    def add(tag, body):
        k = len(fns)
        src = f'def x{k}(p: bool) -> int:\n' + '\n'.join('\t' + l for l in body.split('\n')) + '\n\treturn 1\n\n'
        fns.append((f'x{k}', src, Entry(f'x{k}', [('p', 'bool')], vectors=[(True,), (False,)], tag=f'cross:{tag}')))
    import itertools
    for a, b in itertools.permutations(names, 2):
        add(f'ternary:{a}-{b}', f'x = {a}() if p else {b}()\ny = x')
        add(f'fields:{a}-{b}', f'c = {a}()\nd = {b}()\nv = c.r\nw = d.r\ns = c.area()\nt = d.area()')
        add(f'lists:{a}-{b}', f'cs = [{a}()]\nds = [{b}()]\nc0 = cs[0]\nd0 = ds[0]\nv = c0.r\nw = d0.r')
        add(f'dict:{a}-{b}', "m = {'a': " + a + "()}\nn = {'b': " + b + "()}\nv = m['a'].r\nw = n['b'].r")
    # heterogeneous literals, several per module (each one needs its own Union)
    add('hetero-list:int-none', 'xs = [1, None]\nys = [1.5, None]\nv = xs[0]\nw = ys[0]')
    add('hetero-list:str-int', "xs = ['a', 1]\nys = [p, 2]\nv = xs[0]\nw = ys[1]")
    add('hetero-dict', "d = {'a': 1, 'b': None}\nv = d['a']")
    # same class and arity, other type arguments
    for tag, x, y in [('list', '[1]', "['a']"), ('dict', "{'k': 1}", "{'k': 'v'}"), ('tuple', "(1, 's')", "('s', 1)"), ('nested', '[[1]]', "[['a']]"), ('dict-key', "{1: 'a'}", "{'a': 'a'}")]:
        add(f'same-class-ternary:{tag}', f'x = {x} if p else {y}\ny = x')
        add(f'same-class-ternary-rev:{tag}', f'x = {y} if p else {x}\ny = x')
    for a, b in itertools.permutations(['circle', 'label', 'plate'], 2):
        add(f'factory:{a}-{b}', f'c = make_{a}()\nd = make_{b}()\nv = c.area()\nw = d.area()\nz = make_{a}() if p else make_{b}()')
    per = 30
    for i in range(0, len(fns), per):
        yield pyprog.Program(f'cross{i // per}', prelude, fns[i:i + per], layer='cross', extra=extra)


GENERIC_SHAPES = '''from typing import Generic, TypeVar

T = TypeVar('T')
K = TypeVar('K')

def first_of(d: dict[str, list[T]]) -> T:
	return d['a'][0]

def tail_of(t: tuple[int, list[T]]) -> list[T]:
	return t[1]

def inner_of(xs: list[list[T]]) -> T:
	return xs[0][0]

def second_of(p: tuple[str, T]) -> T:
	return p[1]

def deep_of(d: dict[str, dict[int, list[T]]]) -> T:
	return d['a'][1][0]

def key_of(d: dict[K, list[T]], k: K) -> T:
	return d[k][0]

class Index(Generic[T]):
	rows: dict[str, list[T]]

	def __init__(self, rows: dict[str, list[T]]) -> None:
		self.rows = rows

	def first(self, k: str) -> T:
		return self.rows[k][0]
'''


def generic_shape_programs():
    """Calls of generic functions / a generic class whose type variable sits deeper in a parameter's type than an earlier
    sibling leaf (dict[str, list[T]], tuple[int, list[T]], ...): the argument bound to T is the one at T's own position.
    The generic definitions live in a module of their own (inside them T has no run-time type to compare with)."""
    extra = {'c03g_lib': GENERIC_SHAPES}
    prelude = pyprog.HEADER + 'from c03g_lib import Index, deep_of, first_of, inner_of, key_of, second_of, tail_of\n\n'
    fns = []

    def add(tag, body):
        k = len(fns)
        src = f'def g{k}(p: bool) -> int:\n' + '\n'.join('\t' + l for l in body.split('\n')) + '\n\treturn 1\n\n'
        fns.append((f'g{k}', src, Entry(f'g{k}', [('p', 'bool')], vectors=[(True,), (False,)], tag=f'generic-shape:{tag}')))
    for tag, val in [('float', '1.5'), ('int', '2'), ('bool', 'p'), ('str', "'s'")]:
        add(f'dict-list:{tag}', "v = first_of({'a': [" + val + "]})\nw = v")
        add(f'tuple-list:{tag}', f't = tail_of((1, [{val}]))\nu = t[0]')
        add(f'list-list:{tag}', f'v = inner_of([[{val}]])\nw = v')
        add(f'tuple-leaf:{tag}', f"v = second_of(('k', {val}))\nw = v")
        add(f'dict-dict-list:{tag}', "v = deep_of({'a': {1: [" + val + "]}})\nw = v")
        add(f'two-vars:{tag}', "v = key_of({1: [" + val + "]}, 1)\nw = v")
        add(f'class:{tag}', "ix = Index({'a': [" + val + "]})\nf = ix.first('a')\nr = ix.rows")
    per = 14
    for i in range(0, len(fns), per):
        yield pyprog.Program(f'gshape{i // per}', prelude, fns[i:i + per], layer='cross', extra=extra)


def worker(pj):
    return judge(pyprog.Program.from_json(pj))


def run(ctx):
    from mc.props.c01 import attribute_minimal
    progs = list(pyprog.programs(ctx.quick)) + list(numeric_chain_programs(ctx.quick)) + list(iterator_programs()) + list(receiver_access_programs()) + list(cross_module_programs()) + list(generic_shape_programs())
    ctx.log(f'{len(progs)} modules')
    from mc.props.c01 import warm_parent
    warm_parent()
    results = pool.pmap(worker, [p.to_json() for p in progs], workers=ctx.workers, rotate=ctx.seed)
    nodes = reached = unreached = rejected = 0
    descs = set()
    viols = []
    for r in results:
        nodes += r['nodes']
        reached += r['reached']
        unreached += r['unreached']
        rejected += r['rejected']
        descs.update(r['descs'])
        viols.extend(r['viol'])
    ctx.merge(attribute_minimal(viols))
    return {
        'evaluations': nodes,
        'distinct_nontrivial': reached,
        'programs': len(progs),
        'rule': 'the PyProg scope of C01 (same bounds) + every 3-operand numeric chain over + - * / % with int and float operands (bare and right-parenthesised) + user-defined iterator / iterable classes in for and comprehensions + receiver x access product (list/dict reached plainly, through Optional, through a TypeAlias, as attribute, nested; indexed, sliced, iterated, copied, popped, aliased) + cross-module programs (classes at the same position of same-shaped modules used together: ternaries, fields, lists, dicts, factories, all ordered pairs); every node whose source span coincides with a load-context CPython expression; non-trivial = reached by at least one execution and carrying a data value (callables, classes, iterators and views are not judged)',
        'samples': [p.functions[0][1] for p in (progs[0], progs[len(progs) // 2], progs[-1])],
        'nodes_never_reached': unreached,
        'functions_rejected_by_transpiler_see_C01': rejected,
        'distinct_type_descriptions': sorted(descs)[:60],
        'exhaustive': True,
        'bound': f'<= {2 if ctx.quick else 3} operators; skeleton depth {1 if ctx.quick else 2}',
    }


def replay(ctx, data):
    r = judge(pyprog.Program.from_json(data['program']))
    ctx.merge(r['viol'])
