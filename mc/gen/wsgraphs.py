"""Small module graphs with source variants for the workspace explorations (C05, C06).

Variant families: 'T' changes something a dependent's output depends on (a return type, hence an inferred
declaration type downstream); 'S' changes only the module itself.
"""

# VOWN is inferred from the module's own function: the module's own output depends on its own symbol table entries
A = {
    'v0': 'def fa() -> int:\n\treturn 1\n\nVA: int = 1\nVOWN = fa()\n\ndef use_own() -> int:\n\tv = fa()\n\treturn 1\n',
    'vT': "def fa() -> str:\n\treturn 's'\n\nVA: int = 1\nVOWN = fa()\n\ndef use_own() -> int:\n\tv = fa()\n\treturn 1\n",
    'vS': 'def fa() -> int:\n\treturn 2\n\nVA: int = 1\nVOWN = fa()\n\ndef use_own() -> int:\n\tv = fa()\n\treturn 1\n',
}
B = {
    'v0': 'from proj.a import fa\n\nVB = fa()\n\ndef fb() -> int:\n\treturn 1\n',
    'vS': 'from proj.a import fa\n\nVB = fa()\n\ndef fb() -> int:\n\treturn 2\n',
}
# module names are chosen so that one dotted path is a string prefix of another (proj.b / proj.bb, proj.a / proj.ab)
C = {
    'v0': 'from proj.b import VB\n\nVC = VB\n',
    'vS': 'from proj.b import VB\n\nVC = VB\nVD: int = 0\n',
}
C2 = {   # second dependent of a (diamond)
    'v0': 'from proj.a import fa\n\nVC2 = fa()\n',
}
D = {
    'v0': 'from proj.b import VB\nfrom proj.ab import VC2\n\nVE = VB\nVF = VC2\n',
}

WIDE = '\ndef wide(p0: int, p1: str, p2: float, p3: bool, p4: int, p5: str, p6: float, p7: bool, p8: int, p9: str, p10: int) -> float:\n\treturn p2\n'
USE_WIDE = "\nVW = wide(1, 'a', 1.5, True, 2, 'b', 2.5, False, 3, 'c', 4)\n"
LISTY = '\ndef first_{n}(values: list[int]) -> int:\n\treturn values[0]\n'
A = {k: v + WIDE + LISTY.format(n='a') for k, v in A.items()}
B = {k: v.replace('from proj.a import fa', 'from proj.a import fa, wide') + USE_WIDE + LISTY.format(n='b') for k, v in B.items()}

# chain3p: the same chain with the names rotated so that the *top* module's path (proj.b) is a string prefix of the
# *base* module's path (proj.bb): bb <- a <- b
AP = {k: v for k, v in A.items()}
BP = {k: v.replace('from proj.a import', 'from proj.bb import') for k, v in B.items()}
CP = {k: v.replace('from proj.b import', 'from proj.a import') for k, v in C.items()}

# prefix3: class/method based chain node -> visitor -> node_types; 'proj.node' is a string prefix of 'proj.node_types';
# the head of the chain is listed (and therefore loaded) first, the module at its base is transpiled last
P3_NODE = {'v0': 'from proj.visitor import Visitor\n\nclass Node:\n\tdef accept(self, visitor: Visitor) -> None:\n\t\tprint(visitor)\n'}
P3_VISITOR = {'v0': 'from proj.node_types import Kind\n\nclass Visitor:\n\tdef visit(self, kind: Kind) -> None:\n\t\tkind.show()\n'}
P3_TYPES = {
    'v0': 'class Kind:\n\tdef code(self) -> int:\n\t\treturn 1\n\n\tdef show(self) -> None:\n\t\tv = self.code()\n\t\tprint(v)\n',
    'vT': "class Kind:\n\tdef code(self) -> str:\n\t\treturn 'a'\n\n\tdef show(self) -> None:\n\t\tv = self.code()\n\t\tprint(v)\n",
    'vS': 'class Kind:\n\tdef code(self) -> int:\n\t\treturn 2\n\n\tdef show(self) -> None:\n\t\tv = self.code()\n\t\tprint(v)\n',
}

INPUT_GLOBS = {'prefix3': ['proj/node.py', 'proj/visitor.py', 'proj/node_types.py']}
# incl3: two independent importers below one root package whose imports fall under different include_dirs entries
# (proj/ and the nested proj/ext/:ext_lib/): the #include line of each depends on the longest matching entry only
I3_BASE = {'v0': 'def base() -> int:\n\treturn 1\n', 'vS': 'def base() -> int:\n\treturn 2\n'}
I3_EXT = {'v0': 'def fmt() -> int:\n\treturn 3\n'}
I3_USE_A = {'v0': 'from proj.base import base\n\ndef ua() -> int:\n\treturn base()\n', 'vS': 'from proj.base import base\n\ndef ua() -> int:\n\treturn base() + 1\n'}
I3_USE_B = {'v0': 'from proj.ext.fmt import fmt\n\ndef ub() -> int:\n\treturn fmt()\n', 'vS': 'from proj.ext.fmt import fmt\n\ndef ub() -> int:\n\treturn fmt() + 1\n'}
INCLUDE_DIRS = {'incl3': ['proj/', 'proj/ext/:ext_lib/']}
INPUT_GLOBS['incl3'] = ['proj/*.py', 'proj/ext/*.py']

# twins: two unrelated modules that define a class and a function of the same names; only one of the classes carries a C++
# alias. Whatever a module's text says about 'Vector' must come from that module alone, whichever modules a run regenerates
TW_A = {
    'v0': "from rogw.tranp.compatible.python.embed import Embed\n\n@Embed.alias('FVector')\nclass Vector:\n\tdef size(self) -> int:\n\t\treturn 1\n\ndef make() -> Vector:\n\treturn Vector()\n",
    'vS': "from rogw.tranp.compatible.python.embed import Embed\n\n@Embed.alias('FVector')\nclass Vector:\n\tdef size(self) -> int:\n\t\treturn 3\n\ndef make() -> Vector:\n\treturn Vector()\n",
}
TW_B = {
    'v0': 'class Vector:\n\tdef size(self) -> int:\n\t\treturn 2\n\ndef make() -> Vector:\n\treturn Vector()\n',
    'vS': 'class Vector:\n\tdef size(self) -> int:\n\t\treturn 4\n\ndef make() -> Vector:\n\treturn Vector()\n',
}

# swap3: an importer of two modules whose texts can trade places (both files change, the multiset of texts does not)
SW_X = 'def first() -> int:\n\treturn 1\n\ndef second() -> int:\n\treturn 2\n'
SW_Y = "def first() -> str:\n\treturn 'one'\n\ndef second() -> str:\n\treturn 'two'\n"
SW_TOP = {'v0': 'from proj.sb import first\nfrom proj.sc import second\n\ndef run() -> None:\n\tx = first()\n\ty = x\n\tz = second()\n\tw = z\n\tprint(y, w)\n'}

# crlf2: the pair graph saved with CRLF line ends (what an editor on another platform writes)
CR_A = {k: v.replace('\n', '\r\n') for k, v in {'v0': 'def ca() -> int:\n\treturn 1\n', 'vT': "def ca() -> str:\n\treturn 's'\n"}.items()}
CR_B = {'v0': 'from proj.ca import ca\n\nVCB = ca()\n'.replace('\n', '\r\n')}

GRAPHS = {
    'pair': {'proj/a.py': A, 'proj/b.py': B},
    'chain3': {'proj/a.py': A, 'proj/b.py': B, 'proj/bb.py': C},
    'diamond4': {'proj/a.py': A, 'proj/b.py': B, 'proj/ab.py': C2, 'proj/d.py': D},
    'chain3p': {'proj/bb.py': AP, 'proj/a.py': BP, 'proj/b.py': CP},
    'prefix3': {'proj/node.py': P3_NODE, 'proj/visitor.py': P3_VISITOR, 'proj/node_types.py': P3_TYPES},
    'incl3': {'proj/base.py': I3_BASE, 'proj/ext/fmt.py': I3_EXT, 'proj/usea.py': I3_USE_A, 'proj/useb.py': I3_USE_B},
    'twins': {'proj/ta.py': TW_A, 'proj/tb.py': TW_B},
    'crlf2': {'proj/ca.py': CR_A, 'proj/cb.py': CR_B},
    'swap3': {'proj/s.py': SW_TOP, 'proj/sb.py': {'v0': SW_X, 'vT': SW_Y}, 'proj/sc.py': {'v0': SW_Y, 'vT': SW_X}},
}
IMPORTS = {
    'pair': {'proj/b.py': ['proj/a.py']},
    'chain3': {'proj/b.py': ['proj/a.py'], 'proj/bb.py': ['proj/b.py']},
    'diamond4': {'proj/b.py': ['proj/a.py'], 'proj/ab.py': ['proj/a.py'], 'proj/d.py': ['proj/b.py', 'proj/ab.py']},
    'chain3p': {'proj/a.py': ['proj/bb.py'], 'proj/b.py': ['proj/a.py']},
    'prefix3': {'proj/node.py': ['proj/visitor.py'], 'proj/visitor.py': ['proj/node_types.py']},
    'incl3': {'proj/usea.py': ['proj/base.py'], 'proj/useb.py': ['proj/ext/fmt.py']},
    'twins': {},
    'crlf2': {'proj/cb.py': ['proj/ca.py']},
    'swap3': {'proj/s.py': ['proj/sb.py', 'proj/sc.py']},
}


def relation(graph: str, edited: str, stale: str) -> str:
    """'self' | 'direct' | 'transitive' | 'unrelated': how `stale` depends on `edited`."""
    if edited == stale:
        return 'self'
    imp = IMPORTS[graph]
    if edited in imp.get(stale, []):
        return 'direct'
    seen, todo = set(), list(imp.get(stale, []))
    while todo:
        x = todo.pop()
        if x in seen:
            continue
        seen.add(x)
        todo += imp.get(x, [])
    return 'transitive' if edited in seen else 'unrelated'


def variant_index(graph: str, rel: str, variant: str) -> int:
    return list(GRAPHS[graph][rel].keys()).index(variant)
