"""Shared corpora: enumerated grammar sentences (from larksent) and the real modules of the repository."""
import glob
import os

from mc.core.runner import REPO
from mc.gen import larksent


def sentence_corpus(quick: bool, max_ops: int | None = None) -> list[str]:
    """Sentences accepted-or-not is decided by the user; order is simplest-first and deterministic."""
    out, seen = [], set()
    ops = max_ops if max_ops is not None else (2 if not quick else 2)
    step = 7 if quick else 1
    k = 0
    for n, e in larksent.expr_layers(ops):
        k += 1
        if n >= 2 and k % step:
            continue
        if e not in seen:
            seen.add(e)
            out.append(e)
    small = [e for n, e in larksent.expr_layers(1)]
    for s in larksent.statements(1 if quick else 2, small[::5] if quick else small[::2], ['a', 'f(b)']):
        if s not in seen:
            seen.add(s)
            out.append(s)
    return out


REAL_GLOBS = [
    'rogw/tranp/compatible/libralies/*.py',
    'rogw/tranp/compatible/libralies/collections/*.py',
    'rogw/tranp/compatible/cpp/*.py',
    'rogw/tranp/compatible/python/*.py',
    'example/*.py',
    'example/FW/*.py',
    'tests/unit/rogw/tranp/**/fixtures/fixture_*.py',
]


def real_modules() -> list[tuple[str, str, str]]:
    """(module path, file path, source) for library stubs, example and test fixtures."""
    out = []
    for g in REAL_GLOBS:
        for fp in sorted(glob.glob(os.path.join(REPO, g), recursive=True)):
            if fp.endswith('__init__.py') or fp.endswith('_expect.py'):
                continue
            rel = os.path.relpath(fp, REPO)
            mod = rel[:-3].replace(os.sep, '.')
            with open(fp, encoding='utf-8') as f:
                out.append((mod, fp, f.read()))
    return out


def block_programs() -> list[str]:
    """A few multi-line programs with deep nesting, tab- and space-indented, for span checks."""
    base = [
        'def f(a: int, b: int) -> int:\n\tif a < b:\n\t\tfor i in range(a):\n\t\t\tb += i\n\t\treturn b\n\telif a == b:\n\t\treturn (a +\n\t\t\tb)\n\telse:\n\t\tx = [\n\t\t\t1,\n\t\t\t2,\n\t\t]\n\t\treturn x[0]\n',
        'class C(B):\n\tx: int = 1\n\n\tdef __init__(self, v: int) -> None:\n\t\tself.v = v\n\n\t@classmethod\n\tdef make(cls) -> \'C\':\n\t\treturn cls(1)\n\n\tdef m(self) -> dict[str, int]:\n\t\t# comment\n\t\treturn {\'a\': self.v, \'b\': f(\n\t\t\tself.v,\n\t\t\t2)}\n',
        'try:\n\tx = f(1)\nexcept E as e:\n\traise F(e) from e\nwith open(p) as g:\n\twhile x:\n\t\tx -= 1\n\t\tif x % 2: continue\n\t\tbreak\n',
    ]
    out = []
    for b in base:
        out.append(b)
        out.append(b.replace('\t', '    '))
        out.append(b.replace('\t', '  '))
    return out
