"""In-memory tranp session: the real App/DI wiring of bin/transpile.py over a dict of sources.

Nothing inside tranp is patched. Seams used: DI definitions (ModulePaths, SourceProvider, ModuleMetaFactory,
renderer/transpiler wiring exactly as TranspileApp.definitions does). The process cwd is a scratch directory
holding `data -> /repo/data`, so `.cache/tranp` is written there and never under /repo.
"""

import atexit
import os
import shutil
import tempfile

from mc.core.runner import REPO

_WORKDIR: str | None = None
_OWNER_PID: int | None = None

VIEW_ENV = {'immutable_param_types': ['std::string', 'std::vector', 'std::map', 'std::function']}


def ensure_workdir() -> str:
    """Create (once per process) the scratch cwd with the data symlink and chdir into it."""
    global _WORKDIR, _OWNER_PID
    if _WORKDIR is None or _OWNER_PID != os.getpid():
        parent = _WORKDIR
        _WORKDIR = tempfile.mkdtemp(prefix='tranp-verif-')
        _OWNER_PID = os.getpid()
        os.symlink(os.path.join(REPO, 'data'), os.path.join(_WORKDIR, 'data'))
        if parent and os.path.isdir(os.path.join(parent, '.cache')):
            # forked worker: private copy of the parent's warm cache, so that workers never share cache files
            shutil.copytree(os.path.join(parent, '.cache'), os.path.join(_WORKDIR, '.cache'))
        atexit.register(_cleanup)
    os.chdir(_WORKDIR)
    return _WORKDIR


def adopt_workdir() -> None:
    """For short-lived fork-tree children that run one at a time and end with os._exit: keep using the scratch
    directory inherited from the parent (a Session created in the child must not move to a new, empty one)."""
    global _OWNER_PID
    if _WORKDIR is not None:
        _OWNER_PID = os.getpid()


def on_fork() -> None:
    """Called by the pool in every forked worker: never share the parent's scratch directory."""
    if _WORKDIR is not None:
        ensure_workdir()


def _cleanup() -> None:
    if _WORKDIR and _OWNER_PID == os.getpid():
        try:
            os.chdir('/')
        except OSError:
            pass
        shutil.rmtree(_WORKDIR, ignore_errors=True)


cleanup = _cleanup


class Session:
    def __init__(self, sources: dict[str, str] | None = None, cache: bool = True, transpiler_env: dict | None = None, extra_defs: dict | None = None, template_override: bool = False, view_env: dict | None = None, root: str | None = None, targets: list | None = None) -> None:
        from rogw.tranp.app.app import App
        from rogw.tranp.cache.cache import CacheSetting
        from rogw.tranp.data.meta.types import ModuleMetaFactory
        from rogw.tranp.i18n.i18n import TranslationMapping
        from rogw.tranp.implements.cpp.providers.i18n import translation_mapping_cpp
        from rogw.tranp.implements.cpp.providers.view import renderer_helper_provider_cpp
        from rogw.tranp.implements.cpp.transpiler.py2cpp import Py2Cpp
        from rogw.tranp.lang.middleware import Middleware
        from rogw.tranp.lang.module import to_fullyname
        from rogw.tranp.module.types import ModulePath, ModulePaths
        from rogw.tranp.syntax.ast.parser import SourceProvider
        from rogw.tranp.transpiler.types import ITranspiler, TranspilerOptions
        from rogw.tranp.view.render import Renderer, RendererEmitter, RendererHelperProvider, RendererSetting
        from rogw.tranp.i18n.i18n import I18n
        from rogw.tranp.lang.locator import Invoker
        from rogw.tranp.providers.syntax.ast import source_provider as org_source_provider

        if root:
            # a second project directory served by the same process (own data link, own .cache)
            os.chdir(root)
        else:
            ensure_workdir()
        self.sources: dict[str, str] = dict(sources or {})
        session = self

        template_dirs = [os.path.join('data', 'cpp', 'template')]
        if template_override:
            # a project template directory in front of the stock one (config.yml: template_dirs): its list type template
            # announces the header it needs through the documented emit_depends helper
            tdir = os.path.join(ensure_workdir(), 'tpl', 'type')
            os.makedirs(tdir, exist_ok=True)
            with open(os.path.join(tdir, 'list_type.j2'), 'w') as f:
                f.write("{{- emit_depends('<vector>') -}}{{ i18n('classes', 'list') }}<{{ value_type }}>")
            template_dirs = ['tpl'] + template_dirs

        def make_renderer_setting(i18n: I18n, emitter: RendererEmitter) -> RendererSetting:
            return RendererSetting(list(template_dirs), i18n.t, emitter, dict(view_env if view_env is not None else VIEW_ENV))

        def make_source_provider(invoker: Invoker) -> SourceProvider:
            org = invoker(org_source_provider)

            def provider(module_path: str) -> str:
                if module_path in session.sources:
                    return session.sources[module_path]
                return org(module_path)
            return provider

        defs = {
            to_fullyname(ITranspiler): Py2Cpp,
            # (targets: the modules listed for transpilation; the other sources are reachable through imports only)
            to_fullyname(ModulePaths): lambda: ModulePaths([ModulePath(name, language='py') for name in (targets if targets is not None else session.sources.keys())]),
            to_fullyname(Renderer): Renderer,
            to_fullyname(RendererEmitter): Middleware,
            to_fullyname(RendererHelperProvider): renderer_helper_provider_cpp,
            to_fullyname(RendererSetting): make_renderer_setting,
            to_fullyname(TranslationMapping): translation_mapping_cpp,
            to_fullyname(TranspilerOptions): lambda: TranspilerOptions(verbose=False, env=transpiler_env or {}),
            to_fullyname(SourceProvider): make_source_provider,
            to_fullyname(ModuleMetaFactory): lambda: (lambda module_path: {'hash': 'dummy', 'path': module_path}),
            to_fullyname(CacheSetting): lambda: CacheSetting(basedir='.cache/tranp', enabled=cache),
        }
        defs.update(extra_defs or {})
        self.app = App(defs)

    def get(self, symbol):
        return self.app.resolve(symbol)

    @property
    def modules(self):
        from rogw.tranp.module.modules import Modules
        return self.get(Modules)

    @property
    def transpiler(self):
        from rogw.tranp.transpiler.types import ITranspiler
        return self.get(ITranspiler)

    @property
    def reflections(self):
        from rogw.tranp.semantics.reflections import Reflections
        return self.get(Reflections)

    @property
    def db(self):
        from rogw.tranp.semantics.reflection.db import SymbolDB
        return self.get(SymbolDB)

    def load(self, name: str):
        return self.modules.load(name)

    def unload(self, name: str) -> None:
        self.modules.unload(name)

    def submit(self, name: str, source: str):
        """What Interactive.rebuild_module does: replace the source, unload, load."""
        self.sources[name] = source
        self.modules.unload(name)
        return self.modules.load(name)

    def transpile(self, name: str) -> str:
        return self.transpiler.transpile(self.modules.load(name).entrypoint)

    def warm(self) -> None:
        """Load the standard libraries (shared by every later fork)."""
        self.modules.libralies()


def transpile_source(source: str, name: str = '__main__') -> str:
    s = Session({name: source})
    return s.transpile(name)
