// Prelude for compiling tranp output in the C01 check: standard includes and a stand-in for std::format
// (libstdc++ 12 has no <format>). Deliberately nothing tranp-specific is provided here.
#pragma once
#include <algorithm>
#include <cmath>
#include <cstdio>
#include <functional>
#include <iostream>
#include <map>
#include <memory>
#include <sstream>
#include <stdexcept>
#include <string>
#include <tuple>
#include <vector>
namespace std {
	// printf-style stand-in: only used for exception messages, whose text is never compared
	template<class... Args> inline string format(const string& fmt, Args&&...) { return fmt; }
}
