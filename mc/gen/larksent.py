"""Sentence generator mirroring data/grammar.lark (expressions by hole-contexts, statements by templates).

Binding to the grammar is checked by the users of this module, not assumed: every sentence is offered to
the real lark parser built from the working-tree grammar and to CPython; only sentences both accept are judged.
"""
import itertools

LEAVES = ['a', 'b', 'c', '1', '1.5', "'s'", 'True', 'None']
BIN_OPS = ['or', 'and', '<', '>', '==', '>=', '<=', '!=', 'in', 'not in', 'is', 'is not', '|', '^', '&', '<<', '>>', '+', '-', '*', '/', '%']
UN_OPS = ['not ', '-', '+', '~']


def contexts(full: bool = True):
    """One-hole expression contexts; every operator of the ladder on both sides, every postfix/constructor form."""
    cs = []
    for u in UN_OPS:
        cs.append(u + '{}')
    for op in BIN_OPS:
        cs.append('{} ' + op + ' b')
        cs.append('a ' + op + ' {}')
    cs += ['{} if b else c', 'a if {} else c', 'a if b else {}']
    cs += ['{}()', '{}(b)', 'a({})', 'a(b, {})', 'a(k={})', 'a(b, k={})', 'a(*{})', 'a(**{})', 'a(b, *{}, **c)']
    cs += ['{}.b', '{}[b]', 'a[{}]', 'a[{}:b]', 'a[b:{}]', 'a[::{}]', 'a[{}:]', 'a[:{}]', 'a[b:c:{}]', 'a[{}, b]', 'a[b, {}]', 'a[:]']
    cs += ['[{}]', '[{}, b]', '[a, {}]', '[*{}]', '({}, b)', '(a, {})', '({},)', '()', '[]', '{{}}', '{{{}: b}}', '{{a: {}}}', '{{a: b, c: {}}}', '{{**{}}}']
    cs += ['lambda: {}', 'lambda x: {}', 'lambda x, y: {}']
    cs += ['[{} for x in b]', '[a for x in {}]', '[a for x in b if {}]', '[a for x, y in {}]', '[a for x in b for y in {}]', '{{{}: a for x in b}}', '{{a: {} for x in b}}', '{{a: b for x in {}}}', '{{a: b for x in c if {}}}']
    cs += ['({})']
    return cs


REDUCED_CONTEXTS = ['not {}', '-{}', '{} or b', 'a and {}', '{} < b', 'a == {}', 'a in {}', '{} is not b', '{} | b', 'a ^ {}', '{} & b', 'a << {}', '{} + b', 'a - {}', '{} * b', 'a % {}',
                    '{} if b else c', 'a if b else {}', '{}(b)', 'a(k={})', '{}.b', '{}[b]', 'a[{}:b]', '[{}, b]', '({}, b)', '{{a: {}}}', 'lambda x: {}', '[{} for x in b]', '[a for x in b if {}]']


def expr_layers(max_ops: int, hole_leaves=('a', '1', "'s'"), reduced_third=True):
    """Yields (n_ops, text). Layer k = a context applied to a layer k-1 expression, bare and parenthesised."""
    e0 = list(LEAVES)
    for e in e0:
        yield 0, e
    cs = contexts()
    e1 = []
    seen = set()
    for c in cs:
        for l in (hole_leaves if '{}' in c.replace('{{', '').replace('}}', '') else ('',)):
            t = c.format(l)
            if t not in seen:
                seen.add(t)
                e1.append(t)
                yield 1, t
    if max_ops < 2:
        return
    e2 = []
    for c in cs:
        if '{}' not in c.replace('{{', '').replace('}}', ''):
            continue
        for inner in e1:
            for t in (c.format(inner), c.format('(' + inner + ')')):
                if t not in seen:
                    seen.add(t)
                    e2.append(t)
                    yield 2, t
    if max_ops < 3:
        return
    cs3 = REDUCED_CONTEXTS if reduced_third else cs
    # third layer: reduced contexts around every 2-op expression built from reduced contexts (kept tractable)
    e1r = [c.format('a') for c in REDUCED_CONTEXTS]
    e2r = []
    for c in REDUCED_CONTEXTS:
        for inner in e1r:
            for t in (c.format(inner), c.format('(' + inner + ')')):
                e2r.append(t)
    for c in cs3:
        for inner in e2r:
            for t in (c.format(inner), c.format('(' + inner + ')')):
                if t not in seen:
                    seen.add(t)
                    yield 3, t


# ------------------------------------------------------------------------------------------ statements

AUG_OPS = ['+=', '-=', '*=', '/=', '%=', '&=', '|=', '^=', '<<=', '>>=']
TYPES = ['int', 'str', 'list[int]', 'dict[str, int]', 'tuple[int, str]', 'int | None', 'A.B', 'Callable[[int, str], None]', 'Callable[..., int]', 'list[dict[str, list[int]]]', "'C'", 'None']

SIMPLE = [
    '{e}', 'x = {e}', 'x = y = {e}', 'x, *y = {e}', 'x, y = {e}', 'x, y = {e}, b', 'x.y = {e}', 'x[0] = {e}', 'x: int = {e}', 'x: int', 'x: list[int] = {e}',
    'return', 'pass', 'break', 'continue', 'del x', 'del x, y', 'del x[0]', 'del x.y', 'assert {e}', "assert {e}, 'm'",
    'raise E({e})', 'raise E(a) from e', 'raise e', 'raise a.b', 'raise E',
    'from m import x', 'from m.n import x as y, z', 'from m import (x, y)', 'from m import x, y as z',
] + [f'x {op} {{e}}' for op in AUG_OPS]
FUNC_ONLY_SIMPLE = ['return {e}', 'return {e}, b', 'yield {e}']


def indent(text: str, n: int = 1) -> str:
    return '\n'.join(('\t' * n + ln) if ln else ln for ln in text.split('\n'))


def simple_stmts(exprs):
    for t in SIMPLE:
        if '{e}' in t:
            for e in exprs:
                yield t.format(e=e)
        else:
            yield t


def compound_templates():
    """Templates with {e} expression holes and {B0},{B1}.. block holes (rendered indented)."""
    return [
        'if {e}:\n{B0}',
        'if {e}:\n{B0}\nelse:\n{B1}',
        'if {e}:\n{B0}\nelif b:\n{B1}',
        'if {e}:\n{B0}\nelif b:\n{B1}\nelse:\n{B2}',
        'if {e}:\n{B0}\nelif b:\n{B1}\nelif c:\n{B2}\nelse:\n{B3}',
        'while {e}:\n{B0}',
        'for i in {e}:\n{B0}',
        'for i, j in {e}:\n{B0}',
        'try:\n{B0}\nexcept E as e:\n{B1}',
        'try:\n{B0}\nexcept E as e:\n{B1}\nexcept m.F as f:\n{B2}',
        'with {e} as f:\n{B0}',
        'with {e}:\n{B0}',
        'with a as f, {e} as g:\n{B0}',
    ]


PARAMS = ['', 'x: int', 'x: int, y: str', 'x: int = 1', 'x: int, y: str = {e}', '*a: int', '**k: int', 'x: int, *a: int, **k: str', 'x: list[int] = []', 'x']
DECOS = ['', '@d\n', '@d.e\n', '@d(a)\n', '@d(a, k=b)\n', '@d\n@e(1)\n']


def def_stmts(exprs, bodies):
    for p in PARAMS:
        for e in (exprs if '{e}' in p else ['']):
            for r in ['None', 'int', 'list[int]', 'A.B', "'C'"]:
                yield f'def f({p.format(e=e)}) -> {r}:\n{indent(bodies[0])}'
    for d in DECOS:
        yield f'{d}def f(x: int) -> None:\n{indent(bodies[0])}'
    for b in bodies:
        yield f'def f() -> None:\n{indent(b)}'
    for t in FUNC_ONLY_SIMPLE:
        for e in exprs:
            yield 'def f() -> int:\n' + indent(t.format(e=e))
    # closures
    yield 'def f() -> None:\n\tdef g(x: int) -> int:\n\t\treturn x\n\treturn g(1)'
    yield 'def f() -> None:\n\tif a:\n\t\tdef g() -> None:\n\t\t\tpass'
    yield 'def f() -> None:\n\tdef g() -> None:\n\t\tdef h() -> None:\n\t\t\tpass'


METHOD_FORMS = [
    'def m(self) -> None:\n\tpass',
    'def m(self, x: int) -> int:\n\treturn x',
    'def __init__(self) -> None:\n\tpass',
    'def __init__(self, x: int) -> None:\n\tself.x = x',
    'def __init__(self, x: int) -> None:\n\tself.x: int = x\n\ty = x\n\tx.z = 1',
    '@classmethod\ndef c(cls) -> None:\n\tpass',
    '@classmethod\ndef c(cls, x: int) -> int:\n\treturn x',
    '@d\n@classmethod\ndef c(cls) -> None:\n\tpass',
    '@classmethod\n@d\ndef c(cls) -> None:\n\tpass',
    '@property\ndef p(self) -> int:\n\treturn 1',
    '@staticmethod\ndef s(x: int) -> int:\n\treturn x',
    'def n() -> None:\n\tpass',
    'def m(self) -> None:\n\tdef g() -> None:\n\t\tpass',
    '@classmethod\ndef __init__(cls) -> None:\n\tpass',
    'x: int = 1',
    'x: int',
    'x = 1',
    'class D:\n\tdef m(self) -> None:\n\t\tpass',
    'pass',
    'def m(self) -> None:\n\t"""doc"""\n\tself.x = 1',
    '"""class doc"""',
    'def __init__(self) -> None:\n\t"""doc"""\n\tself.x = 1\n\tself.y: int = 2',
    'class D:\n\t"""inner doc"""\n\tx: int = 1',
]


def class_stmts():
    for bases in ['', '(A)', '(A, B)', '(m.A)', '(A[int])', '()']:
        yield f'class C{bases}:\n\tpass'
    for d in DECOS:
        yield f'{d}class C:\n\tpass'
    for m in METHOD_FORMS:
        yield 'class C:\n' + indent(m)
    for m in METHOD_FORMS:
        yield 'class C:\n\t"""class doc"""\n' + indent(m)
    yield 'def f() -> None:\n\t"""doc"""\n\treturn'
    yield 'def f(a: int) -> int:\n\t"""doc"""\n\tdef g() -> int:\n\t\t"""inner"""\n\t\treturn a\n\treturn g()'
    for m1, m2 in itertools.product(METHOD_FORMS[:12], repeat=2):
        yield 'class C:\n' + indent(m1) + '\n' + indent(m2)
    # class nested in a function: its methods are methods, not closures
    yield 'def f() -> None:\n\tclass C:\n\t\tdef m(self) -> None:\n\t\t\tpass\n\t\tdef n() -> None:\n\t\t\tpass'


def blocks_depth1(exprs):
    e = exprs[0]
    return ['pass', f'x = {e}', f'x = {e}\ny = 1', f'{e}\nbreak']


def statements(max_depth: int, exprs_small, exprs_leaf):
    """Yields statement-level sentences. depth 1: compound with simple bodies; depth 2: every compound inside every compound block."""
    yield from simple_stmts(exprs_small)
    b1 = blocks_depth1(exprs_leaf)
    comp1 = []
    for t in compound_templates():
        nb = t.count('{B')
        for e in (exprs_small if '{e}' in t else ['']):
            for pick in range(len(b1)):
                bodies = {f'B{i}': indent(b1[(pick + i) % len(b1)]) for i in range(nb)}
                s = t.format(e=e, **bodies)
                comp1.append(s)
                yield s
        # inline suite form (simple_stmt block)
        if nb == 1:
            yield t.replace('\n{B0}', ' pass').format(e='a')
    yield from def_stmts(exprs_small, b1)
    yield from class_stmts()
    if max_depth < 2:
        return
    inner = []
    for t in compound_templates():
        nb = t.count('{B')
        bodies = {f'B{i}': indent(b1[i % len(b1)]) for i in range(nb)}
        inner.append(t.format(e='a', **bodies))
    inner.append('def g(x: int) -> int:\n\treturn x')
    inner.append('class D:\n\tpass')
    for t in compound_templates() + ['def f() -> None:\n{B0}', 'class C:\n{B0}', 'class C:\n\tdef m(self) -> None:\n{B0}'.replace('{B0}', '{B0x}')]:
        nb = t.count('{B')
        for pos in range(nb):
            for inn in inner:
                bodies = {f'B{i}': indent(inn if i == pos else 'pass') for i in range(nb)}
                if '{B0x}' in t:
                    yield t.replace('{B0x}', indent(inn, 2))
                    break
                yield t.format(e='a', **bodies)
                # a statement after the nested compound: dedent binding
                bodies2 = {f'B{i}': indent((inn + '\nz = 1') if i == pos else 'pass') for i in range(nb)}
                yield t.format(e='a', **bodies2)
    # else/elif binding at depth 2 (dangling else)
    yield 'if a:\n\tif b:\n\t\tx = 1\n\telse:\n\t\tx = 2'
    yield 'if a:\n\tif b:\n\t\tx = 1\nelse:\n\tx = 2'
    yield 'if a:\n\tif b:\n\t\tx = 1\n\telif c:\n\t\tx = 2\nelif d:\n\tx = 3\nelse:\n\tx = 4'
    yield 'if a:\n\tx = 1\nelse:\n\tif b:\n\t\tx = 2\n\telse:\n\t\tx = 3'
    yield 'for i in a:\n\tif b:\n\t\tbreak\n\telse:\n\t\tcontinue\nx = 1'
    yield 'while a:\n\ttry:\n\t\tx = 1\n\texcept E as e:\n\t\tbreak\n\ty = 2'
