"""Maps the tuple tree of tranp's own parsing engine (py_gram.lark) to the neutral form of canon_ast (C11)."""
import ast

from mc.oracle import canon_ast

CMP = {'<', '>', '==', '<=', '>=', '!='}


class Shape(Exception):
    pass


def is_tok(e):
    return isinstance(e[1], str)


def expr(e):
    name = e[0]
    if is_tok(e):
        v = e[1]
        if name == 'string':
            return ('Str', ast.literal_eval(v))
        if name == 'digit':
            return ('Num', repr(int(v)))
        if name == 'decimal':
            return ('Num', repr(float(v)))
        if name == 'boolean':
            return ('True',) if v == 'True' else ('False',)
        if name == 'none':
            return ('None',)
        if name == '__empty__':
            return ('Empty',)
        if name == 'pass':
            return ('Ellipsis',)
        raise Shape(f'unexpected token {name} in expression position')
    ch = e[1]
    if name == 'var':
        return ('Name', ch[0][1], 'any')
    if name in ('comp_or', 'comp_and'):
        want = 'or' if name == 'comp_or' else 'and'
        if len(ch) < 3 or len(ch) % 2 == 0 or any(o[1] != want for o in ch[1::2]):
            raise Shape(f'{name} chain {[c[0] for c in ch]}')
        return ('BoolOp', want, tuple(expr(x) for x in ch[0::2]))
    if name == 'comp_not':
        if len(ch) != 2 or ch[0][1] != 'not':
            raise Shape(f'comp_not {[c[0] for c in ch]}')
        return ('UnaryOp', 'not', expr(ch[1]))
    if name == 'comp':
        if len(ch) < 3 or len(ch) % 2 == 0:
            raise Shape(f'comp with {len(ch)} children')
        ops = []
        for o in ch[1::2]:
            if o[0] != 'op_comp':
                raise Shape(f'comp operator {o[0]}')
            ops.append(' '.join(t[1] for t in o[1]))
        return ('Compare', expr(ch[0]), tuple(ops), tuple(expr(x) for x in ch[2::2]))
    if name in ('calc_sum', 'calc_mul'):
        if len(ch) < 3 or len(ch) % 2 == 0:
            raise Shape(f'{name} with {len(ch)} children')
        acc = expr(ch[0])
        for i in range(1, len(ch), 2):
            acc = ('BinOp', ch[i][1], acc, expr(ch[i + 1]))
        return acc
    if name == 'unary':
        if len(ch) != 2 or ch[0][0] != 'op_unary':
            raise Shape(f'unary {[c[0] for c in ch]}')
        return ('UnaryOp', '-', expr(ch[1]))
    if name == 'ternary':
        if len(ch) != 3:
            raise Shape(f'ternary with {len(ch)} children')
        return ('IfExp', expr(ch[1]), expr(ch[0]), expr(ch[2]))
    if name == 'expr_move':
        if len(ch) != 2:
            raise Shape(f'expr_move with {len(ch)} children')
        return ('NamedExpr', expr(ch[0]), expr(ch[1]))
    if name == 'lambda':
        names = [c[1] for c in ch[:-1] if c[0] == 'name']
        return ('Lambda', tuple(names), expr(ch[-1]))
    if name == 'relay':
        if len(ch) != 2 or ch[1][0] != 'name':
            raise Shape(f'relay {[c[0] for c in ch]}')
        return ('Attr', expr(ch[0]), ch[1][1])
    if name == 'invoke':
        args = []
        i = 1
        rest = [c for c in ch[1:] if c[0] != '__empty__']
        i = 0
        while i < len(rest):
            c = rest[i]
            if c[0] == 'name' and is_tok(c):
                args.append(('kw', c[1], expr(rest[i + 1])))
                i += 2
            elif c[0] == 'packing':
                args.append(('star' if c[1] == '*' else 'dstar', expr(rest[i + 1])))
                i += 2
            else:
                args.append(('pos', expr(c)))
                i += 1
        # CPython lists positional (incl. starred) arguments before keyword ones
        pos = [a for a in args if a[0] in ('pos', 'star')]
        kw = [a for a in args if a[0] in ('kw', 'dstar')]
        return ('Call', expr(ch[0]), tuple(pos + kw))
    if name == 'indexer':
        parts = [expr(c) for c in ch[1:]]
        if len(parts) == 1:
            return ('Subscript', expr(ch[0]), 'single', (parts[0],))
        if len(parts) in (2, 3):
            sl = ('Slice', parts[0], parts[1], parts[2] if len(parts) == 3 else ('Empty',))
            return ('Subscript', expr(ch[0]), 'single', (sl,))
        raise Shape(f'indexer with {len(parts)} slice parts')
    if name == 'list':
        return ('List', tuple(expr(c) for c in ch if c[0] != '__empty__'))
    if name == 'tuple':
        return ('Tuple', tuple(expr(c) for c in ch))
    if name == 'dict':
        items = []
        for c in ch:
            if c[0] == '__empty__':
                continue
            if c[0] != 'key_value' or len(c[1]) != 2:
                raise Shape('dict item')
            items.append(('pair', expr(c[1][0]), expr(c[1][1])))
        return ('Dict', tuple(items))
    raise Shape(f'unexpected tree {name} in expression position')


def block(e):
    if e[0] != 'block':
        raise Shape(f'expected block, got {e[0]}')
    return tuple(stmt(s) for s in e[1])


def typ(e):
    if e[0] == '__empty__':
        return ('Empty',)
    if e[0] == 'type_none':
        return ('TNone',)
    if e[0] == 'type_var':
        return ('TName', e[1][0][1])
    raise Shape(f'type {e[0]}')


def stmt(e):
    name = e[0]
    if is_tok(e):
        if name == 'break':
            return ('Break',)
        if name == 'continue':
            return ('Continue',)
        if name == 'pass':
            return ('Expr', ('Ellipsis',))
        return ('Expr', expr(e))
    ch = e[1]
    if name == 'move':
        value = expr(ch[-1])
        tgt = ch[:-1]
        if len(tgt) == 1 and tgt[0][0] == 'name':
            return ('Assign', (('Name', tgt[0][1], 'any'),), value)
        if len(tgt) == 2 and tgt[1][0] == 'name' and is_tok(tgt[1]):
            return ('Assign', (('Attr', expr(tgt[0]), tgt[1][1]),), value)
        if len(tgt) >= 2:
            parts = [expr(c) for c in tgt[1:]]
            if len(parts) == 1:
                return ('Assign', (('Subscript', expr(tgt[0]), 'single', (parts[0],)),), value)
            sl = ('Slice', parts[0], parts[1], parts[2] if len(parts) == 3 else ('Empty',))
            return ('Assign', (('Subscript', expr(tgt[0]), 'single', (sl,)),), value)
        raise Shape('move target')
    if name == 'return':
        return ('Return', expr(ch[0]))
    if name == 'raise':
        return ('Raise', expr(ch[0]), ('Empty',))
    if name == 'if':
        then = ch[0]
        if then[0] != 'then':
            raise Shape('if without then')
        elifs = tuple((expr(c[1][0]), block(c[1][1])) for c in ch[1:] if c[0] == 'elif')
        els = [c for c in ch[1:] if c[0] == 'else']
        return ('If', expr(then[1][0]), block(then[1][1]), elifs, block(els[0][1][0]) if els else ('NoElse',))
    if name == 'while':
        return ('While', expr(ch[0]), block(ch[1]))
    if name == 'for':
        names = tuple(c[1] for c in ch[:-2])
        return ('For', names, expr(ch[-2]), block(ch[-1]))
    if name == 'function':
        fname = ch[0][1]
        params = []
        if ch[1][0] == 'params':
            for p in ch[1][1]:
                pn, pt, pd = p[1][0][1], typ(p[1][1]), expr(p[1][2])
                params.append(('param', '', pn, pt, pd))
        return ('Def', '-', fname, (), tuple(params), typ(ch[2]), block(ch[3]))
    return ('Expr', expr(e))


def canon_own(tree):
    if tree[0] != 'entry':
        raise Shape('root is not entry')
    return tuple(stmt(s) for s in tree[1])


def canon_py(src: str):
    import warnings
    out = []
    with warnings.catch_warnings():
        warnings.simplefilter('ignore')
        body = ast.parse(src).body
    for s in body:
        out.append(_neutral(canon_ast.py_stmt(_walrus(s), 'module')))
    return tuple(out)


def _walrus(node):
    return node


def _neutral(t):
    """ctx-free names, classification-free defs (C11 does not judge them)."""
    if isinstance(t, tuple):
        if t and t[0] == 'Name' and len(t) == 3:
            return ('Name', t[1], 'any')
        if t and t[0] == 'Def':
            return ('Def', '-') + tuple(_neutral(x) for x in t[2:])
        return tuple(_neutral(x) for x in t)
    return t
