#!/usr/bin/env python3
"""Dev-time: store a confirmed seeded change under /verif/seeded/<seed id>/ (patch.diff, demo.py, meta.json).

Usage: tools/keep_seed.py <src dir> <k> <seed id> <property> "<needs>" "<detected by>" ["<notes>"]
"""
import json, os, shutil, sys
VERIF = os.path.dirname(os.path.dirname(os.path.abspath(__file__)))
src, k, sid, prop, needs, detected = sys.argv[1:7]
notes = sys.argv[7] if len(sys.argv) > 7 else ''
d = os.path.join(VERIF, 'seeded', sid)
os.makedirs(d, exist_ok=True)
shutil.copy(os.path.join(src, f'mutation{k}.diff'), os.path.join(d, 'patch.diff'))
shutil.copy(os.path.join(src, f'demo{k}.py'), os.path.join(d, 'demo.py'))
if os.path.exists(os.path.join(src, f'notes{k}.md')):
    shutil.copy(os.path.join(src, f'notes{k}.md'), os.path.join(d, 'notes.md'))
meta = {
    'seed': sid, 'property': prop, 'needs_to_manifest': needs, 'detected_by': detected.split(','), 'notes': notes,
    'origin': 'sub-agent given only the property text and a scratch worktree',
    'confirmed': 'patch applied to /repo (git apply), pinned baseline suite re-run with a clean .cache (334/334 stable tests pass), demo.py exits 0 on the unchanged tree and 1 with the patch, the listed checks exit 1 with a VIOLATION line; patch reverted afterwards',
    'commands': [f'git -C /repo apply seeded/{sid}/patch.diff', 'tools/baseline.sh', f'PYTHONPATH=/tmp/pyshim:/repo /venv/bin/python seeded/{sid}/demo.py /repo'] + [f'./check {c} --tier quick' for c in detected.split(',') if c] + ['git -C /repo checkout -- .'],
}
json.dump(meta, open(os.path.join(d, 'meta.json'), 'w'), indent=1)
print('kept', sid)
