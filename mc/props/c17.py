"""C17 -- folding constant expressions gives the value Python gives.

Engine E2: complete enumeration of constant expressions (<= n operators) over a literal alphabet, placed as
enum member values; oracle = CPython evaluating the very same class body.
"""
import itertools

from mc.core import pool

ID = 'C17'
LEVEL = 'exploration'

BIN_OPS = ['+', '-', '*', '/', '%', '|', '^', '&', '<<', '>>']
UN_OPS = ['-', '+', '~']
CASTS = ['int', 'float', 'str']

LEAVES_FULL = ['0', '1', '2', '7', '0x10', '0X1F', '1.5', '2.0', "'a'", '"b"', "'it'", '"\'s"', "'12'", 'B', 'S', 'E.A.value', 'E.C.value',
               '0xFFFFFFFFFFFFFFFF', '9007199254740993', '0x7FFFFFFFFFFFFFFF', '1000']
LEAVES_MID = ['2', '7', '0x10', '1.5', "'a'", '"b"', 'B']
LEAVES_TINY = ['7', '1.5', "'a'", 'B']

PRELUDE_PY = """from enum import Enum

class E(Enum):
	A = 3
	C = 'c'

"""
# members available by bare name inside F's body
F_HEAD = "class F(Enum):\n\tB = 2\n\tS = 's'\n"


def exprs_1(leaves):
    for l in leaves:
        yield l
    for u in UN_OPS:
        for l in leaves:
            yield f'{u}{l}'
    for c in CASTS:
        for l in leaves:
            yield f'{c}({l})'
    for l in leaves:
        yield f'({l})'
    # casts with further arguments, triple-quoted and prefixed strings, member names
    yield from ['int("10", 16)', 'int("10", base=8)', "int('0x1F', 16)", "int('7', 10)", 'int(1.5, 10)', 'float("1.5", 2)', 'str(7, "x")',
                '"""a"""', '"""a""" + "b"', "'''a''' + '''b'''", '"b" + """a"""', "r'a' + 'b'", "'a' + f'b'",
                'int()', 'float()', 'str()']
    for op in BIN_OPS:
        for a in leaves:
            for b in leaves:
                yield f'{a} {op} {b}'


def unary_like(leaves):
    """one-operator sub-terms usable as operands (unary, cast, group of binary)."""
    for u in UN_OPS:
        for l in leaves:
            yield f'{u}{l}'
    for c in CASTS:
        for l in leaves:
            yield f'{c}({l})'


def exprs_2(leaves):
    # binary of (binary) in both positions, with minimal and explicit parentheses
    for op1 in BIN_OPS:
        for op2 in BIN_OPS:
            for a, b, c in itertools.product(leaves, repeat=3):
                yield f'{a} {op1} {b} {op2} {c}'
                yield f'({a} {op1} {b}) {op2} {c}'
                yield f'{a} {op1} ({b} {op2} {c})'
    # unary / cast applied to a binary, and binary with a unary/cast operand
    for op in BIN_OPS:
        for a, b in itertools.product(leaves, repeat=2):
            for u in UN_OPS:
                yield f'{u}({a} {op} {b})'
                yield f'{u}{a} {op} {b}'
                yield f'{a} {op} {u}{b}'
            for c in CASTS:
                yield f'{c}({a} {op} {b})'
                yield f'{c}({a}) {op} {b}'
                yield f'{a} {op} {c}({b})'
    # stacked unary / casts
    for l in leaves:
        for u1 in UN_OPS:
            for u2 in UN_OPS:
                yield f'{u1}{u2}{l}'
            for c in CASTS:
                yield f'{c}({u1}{l})'
                yield f'{u1}{c}({l})'
        for c1 in CASTS:
            for c2 in CASTS:
                yield f'{c1}({c2}({l}))'


def exprs_3(leaves):
    for op1, op2, op3 in itertools.product(BIN_OPS, repeat=3):
        for a, b, c, d in itertools.product(leaves, repeat=4):
            yield f'{a} {op1} {b} {op2} {c} {op3} {d}'
            yield f'{a} {op1} ({b} {op2} {c}) {op3} {d}'
            yield f'({a} {op1} {b}) {op2} ({c} {op3} {d})'
    for op1, op2 in itertools.product(BIN_OPS, repeat=2):
        for a, b, c in itertools.product(leaves, repeat=3):
            for u in UN_OPS:
                yield f'{u}{a} {op1} {b} {op2} {c}'
                yield f'{a} {op1} {u}{b} {op2} {c}'
                yield f'{a} {op1} {b} {op2} {u}{c}'
                yield f'{u}({a} {op1} {b}) {op2} {c}'
            for cst in CASTS:
                yield f'{cst}({a} {op1} {b}) {op2} {c}'
                yield f'{a} {op1} {cst}({b} {op2} {c})'


def n_ops(e: str) -> int:
    import re
    return len(re.findall(r'<<|>>|[-+*/%|^&~]|\b(?:int|float|str)\(', e))


def py_eval(expr: str, ns: dict):
    try:
        return ('ok', eval(expr, ns))
    except Exception as e:  # noqa
        return ('exc', type(e).__name__)


def too_big(expr: str, ns: dict) -> bool:
    """True if evaluating expr would shift by more than 4096 bits somewhere (results of hundreds of megabytes: the
    comparison is about values, not about the allocator). Sub-expressions are checked innermost first."""
    import ast as _ast
    try:
        tree = _ast.parse(expr, mode='eval')
    except SyntaxError:
        return False

    def visit(node) -> bool:
        for c in _ast.iter_child_nodes(node):
            if visit(c):
                return True
        if isinstance(node, _ast.BinOp) and isinstance(node.op, _ast.LShift):
            r = py_eval(_ast.unparse(node.right), ns)
            if r[0] == 'ok' and isinstance(r[1], int) and not isinstance(r[1], bool) and 4096 < r[1] < 2 ** 40:
                return True
        if isinstance(node, _ast.BinOp) and isinstance(node.op, _ast.Mult):
            # 'ab' * 66571993088 is a 133 GB string
            a, b = py_eval(_ast.unparse(node.left), ns), py_eval(_ast.unparse(node.right), ns)
            if a[0] == 'ok' and b[0] == 'ok':
                for x, y in ((a[1], b[1]), (b[1], a[1])):
                    if isinstance(x, str) and isinstance(y, int) and not isinstance(y, bool) and 4096 < y < 2 ** 40:
                        return True
        return False
    return visit(tree.body)


def make_ns():
    ns: dict = {}
    exec(PRELUDE_PY + F_HEAD, ns)
    return {'E': ns['E'], 'B': 2, 'S': 's', 'int': int, 'float': float, 'str': str, '__builtins__': {}}


def decode(v):
    """Evaluator values: int, float, or a *quoted* string."""
    if isinstance(v, str):
        if len(v) >= 6 and v[:3] in ('"""', "'''") and v[-3:] == v[:3]:
            return v[3:-3]
        if len(v) >= 2 and v[0] in '"\'' and v[-1] in '"\'':
            return v[1:-1]
        return ('undecodable', v)
    return v


def classify(expr: str) -> list:
    """Coarse class of an expression: operator multiset + operand type classes (for finding signatures)."""
    import re
    if '[module revision' in expr:
        return ['module-revision']
    if '[library revision' in expr:
        return ['library-revision']
    if '[module ' in expr:
        return ['cross-module']
    expr = expr.split('  [')[0]
    ops = sorted(set(re.findall(r'<<|>>|[-+*/%|^&~]|\b(?:int|float|str)(?=\()', expr)))
    kinds = set()
    for tok in re.findall(r'0[xX][0-9a-fA-F]+|\d+\.\d+|\d+|\'[^\']*\'|"[^"]*"|E\.\w\.value|\b[BS]\b', expr):
        if tok[0] in '"\'':
            kinds.add('str-mixed-quote' if ("'" in tok[1:-1] or '"' in tok[1:-1]) else 'str')
        elif tok.startswith(('0x', '0X')):
            kinds.add('hex-upper' if tok.startswith('0X') else ('hex-64bit' if len(tok) > 12 else 'hex'))
        elif '.' in tok and tok[0].isdigit():
            kinds.add('float')
        elif tok.isdigit() and len(tok) > 12:
            kinds.add('int-beyond-2^53')
        elif tok in ('B', 'S') or tok.startswith('E.'):
            kinds.add('ref')
        else:
            kinds.add('int')
    return ['ops=' + ' '.join(ops), 'operands=' + ' '.join(sorted(kinds))]


_EMIT = True


def emitted_literals(batch, ns, _unused):
    """Third clause of C17: the literal Py2Cpp emits for `F.Xi.value` must decode to the value CPython computes.
    Only members whose value Python can compute to int/float/str get an accessor function; a separate session is used."""
    import re
    from mc.tranp.session import Session
    from rogw.tranp.errors import Errors
    members, funcs = [], []
    for i, e in enumerate(batch):
        py = py_eval(e, ns)
        if py[0] != 'ok' or type(py[1]) not in (int, float, str):
            continue
        members.append(i)
        funcs.append(f'def v{i}() -> {type(py[1]).__name__}:\n\treturn F.X{i}.value\n')
    if not members:
        return {}
    out = {}
    # one accessor per module keeps a refusal (application error) local to its member
    src_head = PRELUDE_PY + F_HEAD + ''.join(f'\tX{i} = {batch[i]}\n' for i in members) + '\n'
    try:
        s = Session({'__main__': src_head + '\n'.join(funcs)})
        text = s.transpile('__main__')
    except Errors.Error:
        return {}     # some member is refused: covered by the evaluator clause, not judged here
    except Exception:  # noqa
        return {}
    for i in members:
        m = re.search(r'\b\w+ v%d\(\) \{\n\treturn (.*);\n\}' % i, text)
        if not m:
            continue
        lit = m.group(1)
        try:
            if lit.startswith('"') and lit.endswith('"'):
                val = lit[1:-1]
            elif re.fullmatch(r'-?\d+', lit):
                val = int(lit)
            else:
                val = float(lit)
            out[i] = ('ok', val if not isinstance(val, str) else "'" + val + "'") if not isinstance(val, str) else ('ok', '"' + val + '"')
        except ValueError:
            out[i] = ('ok', ('undecodable-literal', lit))
    return out


def eval_batch(batch):
    """batch: list of expressions -> list of (expr, py_outcome, tranp_outcome)."""
    import rogw.tranp.syntax.node.definition as defs
    from rogw.tranp.errors import Errors
    from rogw.tranp.transpiler.types import Evaluator
    from mc.tranp.session import Session
    out = []
    ns = make_ns()
    big = [e for e in batch if too_big(e, ns)]
    if big:
        batch = [e for e in batch if e not in big]
        out += [(e, ('skip', 'shift-beyond-4096-bits'), ('skipped-shift-beyond-4096-bits', '')) for e in big]
        if not batch:
            return out
    src = PRELUDE_PY + F_HEAD + ''.join(f'\tX{i} = {e}\n' for i, e in enumerate(batch))
    try:
        s = Session({'__main__': src})
        mod = s.load('__main__')
        enum = [n for n in mod.entrypoint.statements if isinstance(n, defs.Enum) and n.domain_name == 'F'][0]
        ev = s.get(Evaluator)
        values = {v.symbol.domain_name: v.declare.as_a(defs.MoveAssign).value for v in enum.vars}
    except Exception as e:  # noqa  -- whole module rejected: evaluate one by one to find the culprit
        if len(batch) == 1:
            kind = 'app-error' if isinstance(e, Errors.Error) else f'raw:{type(e).__name__}'
            return [(batch[0], py_eval(batch[0], ns), ('load-failed', kind))]
        mid = len(batch) // 2
        return out + eval_batch(batch[:mid]) + eval_batch(batch[mid:])
    emitted = emitted_literals(batch, ns, s if False else None) if _EMIT else {}
    for i, e in enumerate(batch):
        py = py_eval(e, ns)
        if i in emitted:
            out.append((e + '  [emitted .value]', py, emitted[i]))
        try:
            got = ('ok', ev.exec(values[f'X{i}']))
        except Errors.Error as ex:
            got = ('refused', type(ex).__name__)
        except RecursionError:
            got = ('raw', 'RecursionError')
        except Exception as ex:  # noqa
            got = ('raw', type(ex).__name__)
        out.append((e, py, got))
    return out


def cross_module_cases():
    """One evaluator instance folding several same-shaped modules whose referenced members differ (history dimension)."""
    from rogw.tranp.errors import Errors
    from rogw.tranp.transpiler.types import Evaluator
    import rogw.tranp.syntax.node.definition as defs
    from mc.tranp.session import Session
    exprs = ['B + 1', 'B * 2 + C', 'C - B', 'B | 0x10', 'S + S', 'B', 'C % B']
    bases = [(2, 3, "'s'"), (5, 7, "'t'"), (256, 512, "'u'")]
    sources = {}
    for k, (b, c, sv) in enumerate(bases):
        sources[f'cm{k}'] = 'from enum import Enum\n\nclass F(Enum):\n' + f'\tB = {b}\n\tC = {c}\n\tS = {sv}\n' + ''.join(f'\tX{i} = {e}\n' for i, e in enumerate(exprs))
    out = []
    for order in ([0, 1, 2], [2, 0, 1], [1, 2, 0, 1]):
        s = Session(dict(sources))
        ev = s.get(Evaluator)
        for k in order:
            mod = s.load(f'cm{k}')
            enum = [n for n in mod.entrypoint.statements if isinstance(n, defs.Enum)][0]
            values = {v.symbol.domain_name: v.declare.as_a(defs.MoveAssign).value for v in enum.vars}
            b, c, sv = bases[k]
            ns = {'B': b, 'C': c, 'S': sv[1:-1], '__builtins__': {}}
            for i, e in enumerate(exprs):
                py = py_eval(e, ns)
                try:
                    got = ('ok', ev.exec(values[f'X{i}']))
                except Errors.Error as ex:
                    got = ('refused', type(ex).__name__)
                except Exception as ex:  # noqa
                    got = ('raw', type(ex).__name__)
                out.append((f'{e}  [module {k} (B={b}, C={c}) evaluated after modules {order[:order.index(k)]} by the same evaluator]', py, got))
    # revisions: the same module path is edited and reloaded (what the interactive mode does for every input);
    # the session and its evaluator live on
    rev_exprs = [['B + 1', 'B * 2 + C', 'C - B', '1 + 5', "'p' + 'q'", 'X0 + 1'],
                 ['B + 2', 'B * 2 - C', 'C % B', '2.5 + 2', "'r' + 's'", 'X0 * 2'],
                 ['C + 1', 'B | C', 'C - B', '0x0F | 0x30', "'p' + 'q'", 'X1 + X0']]
    for order in ([0, 1, 2], [2, 1, 0], [1, 0, 1]):
        s = Session({'cmrev': 'from enum import Enum\n'})
        ev = s.get(Evaluator)
        done = []
        for k in order:
            b, c, sv = bases[k]
            exprs_k = rev_exprs[k]
            s.sources['cmrev'] = 'from enum import Enum\n\nclass F(Enum):\n' + f'\tB = {b}\n\tC = {c}\n\tS = {sv}\n' + ''.join(f'\tX{i} = {e}\n' for i, e in enumerate(exprs_k))
            s.modules.unload('cmrev')
            mod = s.load('cmrev')
            enum = [n for n in mod.entrypoint.statements if isinstance(n, defs.Enum)][0]
            values = {v.symbol.domain_name: v.declare.as_a(defs.MoveAssign).value for v in enum.vars}
            ns = {'B': b, 'C': c, 'S': sv[1:-1], '__builtins__': {}}
            for i, e in enumerate(exprs_k):
                py = py_eval(e, ns)
                if py[0] == 'ok':
                    ns[f'X{i}'] = py[1]
                try:
                    got = ('ok', ev.exec(values[f'X{i}']))
                except Errors.Error as ex:
                    got = ('refused', type(ex).__name__)
                except Exception as ex:  # noqa
                    got = ('raw', type(ex).__name__)
                out.append((f'{e}  [module revision {k} (B={b}, C={c}) loaded after revisions {done} of the same module path, same evaluator]', py, got))
            done.append(k)
    # a chain target -> intermediate module (not a target itself) -> library module; the library module is re-submitted
    # (edited, unloaded) while the session and its evaluator live on: the target's members fold the library's *current* values
    import types
    lib_revs = [(3, 40), (40, 3), (117, 5)]
    chain_exprs = ['Base.A.value + 1', 'Base.A.value * 2 + Base.B.value', 'Base.B.value - Base.A.value', 'Base.A.value | 0x100']
    mid_src = 'from cclib import Base\n\nMID: int = 1\n'
    main_src = 'from enum import Enum\nfrom ccmid import Base\n\nclass F(Enum):\n' + ''.join(f'\tX{i} = {e}\n' for i, e in enumerate(chain_exprs))
    for order in ([0, 1], [1, 0, 2], [2, 0]):
        s = Session({'cclib': 'from enum import Enum\n', 'ccmid': mid_src, 'ccmain': main_src}, targets=['ccmain'])
        ev = s.get(Evaluator)
        done = []
        for k in order:
            a, b = lib_revs[k]
            try:
                # (what the interactive mode does with a submitted module: replace the text, unload, load)
                s.submit('cclib', f'from enum import Enum\n\nclass Base(Enum):\n\tA = {a}\n\tB = {b}\n')
                mod = s.load('ccmain')
                enum = [n for n in mod.entrypoint.statements if isinstance(n, defs.Enum)][0]
                values = {v.symbol.domain_name: v.declare.as_a(defs.MoveAssign).value for v in enum.vars}
            except Exception as ex:  # noqa
                out.append((f'{chain_exprs[0]}  [library revision {k} (A={a}, B={b}) re-submitted after revisions {done}; target -> intermediate -> library]', ('ok', a + 1), ('raw', type(ex).__name__)))
                done.append(k)
                continue
            ns = {'Base': types.SimpleNamespace(A=types.SimpleNamespace(value=a), B=types.SimpleNamespace(value=b)), '__builtins__': {}}
            for i, e in enumerate(chain_exprs):
                py = py_eval(e, ns)
                try:
                    got = ('ok', ev.exec(values[f'X{i}']))
                except Errors.Error as ex:
                    got = ('refused', type(ex).__name__)
                except Exception as ex:  # noqa
                    got = ('raw', type(ex).__name__)
                out.append((f'{e}  [library revision {k} (A={a}, B={b}) re-submitted after revisions {done}; target -> intermediate -> library]', py, got))
            done.append(k)
    return out


def short(v) -> str:
    try:
        if isinstance(v, int) and not isinstance(v, bool) and abs(v) > 10 ** 40:
            return f'<int with {v.bit_length()} bits>'
        r = repr(v)
    except Exception as e:  # noqa
        return f'<unprintable {type(v).__name__}: {type(e).__name__}>'
    return r if len(r) <= 120 else r[:117] + '...'


def judge(expr, py, got):
    """Returns None or (signature, what)."""
    if got[0] == 'refused' or got[0].startswith('skipped'):
        return None
    if got[0] == 'load-failed':
        if got[1] == 'app-error':
            return None
        return (['load', got[1]] + classify(expr), f'{expr}: module load failed with {got[1]}')
    if got[0] == 'raw':
        return (['raw-exception', got[1]] + classify(expr), f'{expr}: evaluator raised {got[1]} (not an application error); python: {py}')
    val = decode(got[1])
    if py[0] == 'exc':
        return (['value-where-python-raises', py[1]] + classify(expr), f'{expr}: python raises {py[1]}, evaluator returns {short(got[1])}')
    pv = py[1]
    same = type(val) is type(pv) and (val == pv or (isinstance(val, float) and val != val and pv != pv))
    if not same:
        return (['different-value', f'{type(pv).__name__}->{type(val).__name__}' if type(val) is not type(pv) else 'same-type'] + classify(expr),
                f'{expr}: python = {short(pv)}, evaluator = {short(got[1])}')
    return None


def run(ctx):
    exprs = list(exprs_1(LEAVES_FULL))
    exprs += list(exprs_2(LEAVES_MID if ctx.quick else LEAVES_FULL[:12] + ['B']))
    if not ctx.quick:
        exprs += list(exprs_3(LEAVES_TINY))
    # dedupe preserving simplest-first order
    seen = set()
    uniq = []
    for e in exprs:
        if e not in seen:
            seen.add(e)
            uniq.append(e)
    ctx.log(f'{len(uniq)} expressions')
    batches = pool.chunked(uniq, 150)
    # warm the library cache once in the parent so that forked workers share it
    from mc.tranp.session import Session
    Session({'__main__': 'x: int = 0\n'}).load('__main__')
    results = pool.pmap(eval_batch, batches, workers=ctx.workers, rotate=ctx.seed)
    results.append(cross_module_cases())
    n = nontriv = 0
    outcomes = {}
    agreed = refused = 0
    for res in results:
        for expr, py, got in res:
            n += 1
            if n_ops(expr) >= 2:
                nontriv += 1
            outcomes[got[0]] = outcomes.get(got[0], 0) + 1
            v = judge(expr, py, got)
            if got[0] == 'ok' and v is None:
                agreed += 1
            if v:
                ctx.violation(v[0], v[1], {'expr': expr})
    return {
        'evaluations': n,
        'distinct_nontrivial': nontriv,
        'rule': f'all expressions with <= {2 if ctx.quick else 3} operator applications (binary {BIN_OPS}, unary {UN_OPS}, casts {CASTS}, parentheses in every position) over leaves {LEAVES_FULL} (1 op), a reduced leaf set for 2 and 3 ops; distinct by text; expressions that shift by, or repeat a string, more than 4096 (and less than 2**40) times are not evaluated (outcome skipped-...: results of up to gigabytes; beyond 2**40 Python and the evaluator both fail at once, which is compared); non-trivial = at least two operator applications',
        'samples': uniq[:3] + uniq[len(uniq) // 2: len(uniq) // 2 + 3] + uniq[-3:],
        'outcomes': outcomes,
        'values_agreeing_with_python': agreed,
        'exhaustive': True,
        'bound': '<= 2 operators' if ctx.quick else '<= 3 operators',
    }


def replay(ctx, data):
    res = eval_batch([data['expr']])
    for expr, py, got in res:
        v = judge(expr, py, got)
        if v:
            ctx.violation(v[0], v[1], data)
