#!/usr/bin/env python3
"""Regenerates /verif/MANIFEST.json from the table below; a property is claimed iff mc/props/<id>.py exists."""
import json
import os

VERIF = os.path.dirname(os.path.dirname(os.path.abspath(__file__)))

E1 = 'explicit-state exploration (BFS over operation histories on the real code, exact state dedup)'
E2 = 'bounded exhaustive enumeration of inputs against a reference oracle (small-scope model checking of a sequential function)'

META = {
    'C01': ('exploration', 'exhaustive small-scope enumeration of typed programs; differential execution g++ vs CPython', 'DESIGN §4 C01',
            'every program of the stated generator scope is transpiled, compiled with g++ -std=c++20 and run against CPython on the full argument product; verdict covers that scope only',
            'g++ 12 + prelude.h (std includes and a std::format stand-in); CPython as oracle; 3.13 shim'),
    'C02': ('exploration', 'exhaustive small-scope enumeration of grammar sentences; canonical tree comparison with CPython ast', 'DESIGN §4 C02',
            'all sentences of the generator up to the stated operator/nesting bound are parsed by tranp and CPython and compared after canonicalisation',
            'hand-written sentence generator bound to data/grammar.lark by acceptance check; canonicaliser; CPython ast'),
    'C03': ('exploration', 'exhaustive small-scope enumeration of typed programs; inferred type vs run-time type recorder', 'DESIGN §4 C03',
            'every sub-expression of every generated program is executed under CPython with a recorder and compared with Reflections.type_of',
            'CPython as oracle; describe() mapping of run-time values to type descriptions'),
    'C04': ('model_checking', 'stateless exploration of all load/transpile/unload/submit histories up to a depth on a live session (fork snapshots), outputs vs fresh-process baseline', 'DESIGN §4 C04',
            'every operation sequence up to the depth bound is executed on the real session; each transpile is compared byte-for-byte with a fresh session',
            'fork() snapshots are faithful copies of interpreter state; in-memory SourceProvider seam'),
    'C05': ('model_checking', 'explicit-state BFS over workspace states (edit/run/clear) with exact directory digests + exhaustive truncation (crash-point) layer', 'DESIGN §4 C05',
            'every reachable workspace state is checked: warm forced run == cold forced run; every truncation offset of the stated cache files',
            'real CLI run in a child process per transition; harness-assigned mtimes'),
    'C06': ('model_checking', 'explicit-state BFS over workspace states (edit/run/run -f/delete-output) with exact directory digests; exhaustive output_filepath injectivity sweep', 'DESIGN §4 C06',
            'every reachable workspace state is checked: files after run == files after run -f',
            'real CLI run in a child process per transition; harness-assigned mtimes'),
    'C07': ('exploration', 'deviation-bounded exhaustive mutation (token/byte level, annotation removal, undecodable bytes, nesting depth) of seed programs in memory and on disk, every parsable text twice against the cache of its first run, bin/transpile histories with and without -p; outcome class oracle', 'DESIGN §4 C07',
            'all single deviations of the seed programs (pairs in thorough) run through parse/load/type_of/transpile; outcome must be ok or Errors.Error',
            'seed programs; token alphabet; 10 s termination budget per case'),
    'C08': ('exploration', 'exhaustive enumeration of (identifier, fresh name) renamings; metamorphic oracle transpile(r(P)) == r(transpile(P))', 'DESIGN §4 C08',
            'every single renaming (pairs in thorough) over the stated name alphabet is checked on every program of the corpus',
            'fresh names occur nowhere else in the program or output, so textual renaming of the output is sound'),
    'C09': ('exploration', 'exhaustive enumeration of node trees + deviation-bounded nested runs on one long-lived Procedure per worker (history), resolving-handler layer; identity-procedure oracle', 'DESIGN §4 C09',
            'every node of every enumerated tree is checked: handler kwargs are exactly the child results',
            'identity procedure; C02 sentence enumeration; real modules'),
    'C10': ('model_checking', 'exhaustive enumeration of labelled tree shapes (bijection laws) + explicit-state exploration of query orders on NodeResolver', 'DESIGN §4 C10',
            'all trees up to n entries; all prior-query sets/orders up to the bound on real parse trees',
            'EntryOfDict trees built by the harness'),
    'C11': ('exploration', 'exhaustive bounded derivation of sentences from the shipped Rules object; canonical tree comparison with CPython ast; single-token mutation and lexeme-boundary layers judged against an independent context-free reference recogniser; canaries after every non-derived sentence (histories of length 2 on one parser)', 'DESIGN §4 C11',
            'all derivations up to the depth bound are parsed by the self-hosted engine and compared with CPython ast',
            'derivation enumerator over Rules; CPython ast; 3.13 shim'),
    'C12': ('exploration', 'exhaustive enumeration of small rule sets and their single-token deletions on one reused parser (canary after every rejection); round trip pretty/parse/from_ast, literal-terminal oracle, reference recogniser for the meta-grammar + fixed points on shipped grammars', 'DESIGN §4 C12',
            'all rule sets up to r rules of pattern depth d round-trip; shipped grammars reproduce their compiled rule modules byte for byte',
            'structural equality on Rules defined by the harness; 3.13 shim'),
    'C13': ('exploration', 'exhaustive enumeration of token sequences and layout rewrites; CPython tokenize as oracle + metamorphic layout relation', 'DESIGN §4 C13',
            'all token sequences up to length n over every operator and all single layout rewrites',
            'CPython tokenize; mapping between token classes'),
    'C14': ('exploration', 'exhaustive enumeration over module sets and over all 3-step revision histories of one module in one session; export/unload/import round trip compared symbol by symbol', 'DESIGN §4 C14',
            'every module of every generated/real module set round-trips through to_json/import_json',
            'real modules + generated schemas'),
    'C15': ('exploration', 'exhaustive enumeration of parse trees and of hand-built lark trees (<= 4 entries x token values); dumps/loads, EntryStored and on-disk cache round trips compared field by field', 'DESIGN §4 C15',
            'every tree of the sentence enumeration and every real module round-trips',
            'lark trees from the working-tree grammar'),
    'C16': ('exploration', 'exhaustive enumeration of parse trees (fresh, restored, loaded from disk by the application); span re-lexing oracle, restored == fresh spans, caret range oracle', 'DESIGN §4 C16',
            'every entry of every tree: tokens of the span slice equal the entry tokens; child spans nested',
            'lark lexer as reference tokenizer'),
    'C17': ('exploration', 'exhaustive enumeration of constant expressions; CPython eval as oracle; one evaluator over several same-shaped modules and over revisions of one module (histories)', 'DESIGN §4 C17',
            'all expressions up to n operators over the literal alphabet',
            'CPython eval; 3.13 shim'),
    'C18': ('exploration', 'exhaustive enumeration of bracket-balanced fragments; reference splitter oracle and algebraic laws', 'DESIGN §4 C18',
            'all fragments up to n atoms over the stated alphabet',
            'reference splitter written in the check'),
    'C19': ('model_checking', E1 + '; reference model = dict per container', 'DESIGN §4 C19',
            'all operation histories up to the depth bound over the stated universe, both DI and LazyDI; every transition executes the real method and is compared with the reference model (return value, abstracted private state of every container, can_resolve)',
            'reference model in mc/props/c19.py; private dict access by mangled name; behaviours the property leaves open (bind over a pending lazy registration, cyclic factories) are not explored'),
}


def main():
    props = [json.loads(l) for l in open(os.path.join(VERIF, 'properties.jsonl'))]
    checks, na = [], []
    for p in props:
        pid = p['id']
        if os.path.exists(os.path.join(VERIF, 'mc', 'props', f'{pid.lower()}.py')) and pid in META:
            cat, tech, ref, text, note = META[pid]
            checks.append({
                'property_id': pid,
                'quick_cmd': f'./check {pid} --tier quick',
                'thorough_cmd': f'./check {pid} --tier thorough',
                'evidence_file': f'/verif/evidence/{pid}.json',
                'replay_cmd_template': f'./check {pid} --replay {{path}}',
                'engine': 'mc',
                'level_claimed': {'category': cat, 'text': text, 'design_ref': ref},
                'level_note': note,
                'technique': tech,
            })
        else:
            na.append({'property_id': pid, 'reason': 'check not built yet in this session (planned per DESIGN §4; bounded exhaustive exploration does apply)'})
    manifest = {
        'version': 1,
        'setup_cmd': '/venv/bin/python /verif/tools/setup_check.py',
        'hooks': {
            'guard': 'ROG_WORKS_TRANP_VERIF',
            'enable': 'no hooks in /repo: checks import rogw.tranp from the working tree and observe through public seams (DI overrides, Procedure handlers, mangled attribute reads); the variable is exported by ./check but nothing in /repo reads it',
            'baseline_off_cmd': 'cd /repo && /venv/bin/python -m pytest -ra -q -p no:cacheprovider --timeout=900 --continue-on-collection-errors',
            'source_commits': [],
            'add_only': True,
        },
        'engines': [{
            'name': 'mc',
            'path': '/verif/mc',
            'serves_properties': [c['property_id'] for c in checks],
            'kind_free_text': 'hand-written explicit-state / bounded-exhaustive explorer in Python driving the real rogw.tranp code (E1: BFS over histories with exact state dedup or fork-tree DFS; E2: size-indexed input enumeration against reference oracles)',
        }],
        'checks': checks,
        'not_applicable': na,
        'notes': 'See DESIGN.md. known_findings.json lists open findings (KNOWN-FINDING lines) and fixed ones (suppress nothing). fix: commits in /repo are listed there with their hashes.',
    }
    with open(os.path.join(VERIF, 'MANIFEST.json'), 'w') as f:
        json.dump(manifest, f, indent=1, ensure_ascii=False)
        f.write('\n')
    print(f'claimed: {[c["property_id"] for c in checks]}; not yet: {len(na)}')


if __name__ == '__main__':
    main()
