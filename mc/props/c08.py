"""C08 -- consistent renaming of user identifiers commutes with transpilation.

Engine E2 (metamorphic): for every program of a corpus that contains every binding form, every user
identifier x every fresh name of an adversarial alphabet (prefix/suffix relations, separator-like fragments,
grammar tags, extensions of reserved words, generated-id look-alikes): transpile(r(P)) == r(transpile(P)),
symbol-table keys and type descriptions change only by r. Thorough: pairs renamed simultaneously, swaps.
"""
import io
import itertools
import re
import tokenize

from mc.core import pool

ID = 'C08'
LEVEL = 'exploration'

P_FUNCS = '''from collections.abc import Callable

LIMIT: int = 10

def helper(val: int, step: int = 2) -> int:
	return val * step

def apply(fn: Callable[[int], int], arg: int) -> int:
	return fn(arg)

def work(num: int, flag: bool) -> int:
	total = 0
	for idx in range(num):
		if idx % 2 == 0:
			continue
		total += helper(idx)
	items = [num, 2, 3]
	for pos, item in enumerate(items):
		total += pos * item
	table = {'k': num}
	for key, val in table.items():
		total += val
	squares = [elem * elem for elem in items if elem > 1]
	mapping = {elem: elem + 1 for elem in items}
	def inner(delta: int) -> int:
		return delta + total + num
	adder: Callable[[int], int] = lambda lam: lam + num
	total += apply(lambda arg2: arg2 * 2, num) + inner(1) + adder(2)
	try:
		if flag:
			raise RuntimeError('bad')
		total += 1
	except RuntimeError as err:
		total -= 1
	first, second = (num, total)
	while total > LIMIT:
		total -= LIMIT
	return total + first + second + len(squares) + len(mapping)
'''

P_CLASSES = '''from enum import Enum

class Color(Enum):
	Red = 0
	Green = 1

class Shape:
	count: int
	label: str

	def __init__(self, count: int, label: str) -> None:
		self.count = count
		self.label = label

	def grow(self, amount: int) -> int:
		self.count += amount
		return self.count

	@property
	def size(self) -> int:
		return self.count * 2

	@classmethod
	def unit(cls) -> 'Shape':
		return cls(1, 'u')

class Box(Shape):
	depth: int

	def __init__(self, count: int, depth: int) -> None:
		super().__init__(count, 'box')
		self.depth = depth

	def volume(self) -> int:
		return self.size * self.depth + self.grow(1)

class Twin:
	count: int

	def __init__(self, origin: Shape) -> None:
		origin.count = origin.count + 1
		self.count = origin.count

def build_shape(count: int) -> Shape:
	return Shape(count, 'b')

def build(amount: int, tint: Color) -> int:
	box = Box(amount, 3)
	other: Shape = Box(amount, 1)
	made = build_shape(amount)
	twin = Twin(box)
	shape = Shape.unit()
	if tint == Color.Red:
		return box.volume() + shape.size + twin.count + other.count + made.count
	return box.depth + Color.Green.value
'''

P_MOD_A = '''class Engine:
	power: int

	def __init__(self, power: int) -> None:
		self.power = power

	def boost(self, extra: int) -> int:
		return self.power + extra

def make_engine(power: int) -> Engine:
	return Engine(power)

BASE_POWER: int = 5
'''
P_MOD_B = '''from mod_a import Engine, make_engine, BASE_POWER

def drive(level: int) -> int:
	engine = make_engine(level)
	other: Engine = Engine(BASE_POWER)
	return engine.boost(other.power)
'''

P_ACCESS = '''class Account:
	owner: str
	_balance: int
	tags: str
	__secret: int

	def __init__(self, owner: str, amount: int) -> None:
		self.owner = owner
		self._balance = amount
		self.tags = owner
		self.__secret = amount + 1

	def total(self) -> int:
		return self._balance + self.__secret

def open_account(holder: str) -> int:
	account = Account(holder, 3)
	return account.total()
'''
P_TEXT = '''class Cursor:
	pos: int

	def __init__(self, pos: int) -> None:
		self.pos = pos
		self.setup(2)

	def setup(self, step: int) -> None:
		self.pos = self.pos + step

	def advance(self) -> 'Cursor':
		return Cursor(self.pos + 1)

class Entry:
	score: int
	weight: int

	def __init__(self, score: int) -> None:
		self.score = score
		self.weight = score * 2

def weigh_entry(entry: Entry) -> int:
	return entry.weight

def ranked(count: int) -> int:
	entries = [Entry(count), Entry(2)]
	entries.sort(key=lambda elem: elem.score)
	others = [Entry(1)]
	others.sort(key=lambda each: weigh_entry(each))
	cursor = Cursor(count).advance()
	return entries[0].score + others[0].score + cursor.pos
'''
P_CLASSES_CFG = P_CLASSES + '''
def weigh(box: Box, twin: Twin, shape: Shape) -> int:
	return box.depth + twin.count + shape.count
'''
# a program name 'x@immutable:K' means: the project class K is listed in env.view.immutable_param_types of the
# configuration (parameters of that type are passed by const reference); a renaming of K is applied to that entry too
PROGRAMS = {
    'funcs': {'prog_funcs': P_FUNCS},
    'classes': {'prog_classes': P_CLASSES},
    'classes@immutable:Shape': {'prog_classes_cfg': P_CLASSES_CFG},
    'access': {'prog_access': P_ACCESS},
    'text': {'prog_text': P_TEXT},
    'modules': {'mod_a': P_MOD_A, 'mod_b': P_MOD_B},
}

RESERVED = {'self', 'cls', '__init__', 'Enum', 'Callable', 'int', 'str', 'bool', 'float', 'list', 'dict', 'tuple', 'range', 'len', 'enumerate', 'super', 'RuntimeError', 'Exception',
            'property', 'classmethod', 'items', 'value', 'name', 'append', 'None', 'True', 'False', 'enum', 'collections', 'abc'}

FRESH_Q = ['zq', 'zq_', 'zq__w', 'selfish', 'self_', 'cls2', 'Enum2', 'super_', 'rangex', 'var', 'name', 'block', 'assign', 'class_def', 'function_def_raw', 'if_12', 'x_0',
           'a' * 40, 'Zq', 'z',
           # spellings that start or end like something the templates / the transpiler look for by text
           'IteratorState', 'ItemsViewModel', 'constant', 'post__init__', 'Embedded', 'std_x', 'CP_x', 'list_x', 'Callable2', 'Union_x', 'e', 'a',
           # ... or end like the receiver names (the parameter templates recognise self / cls in rendered text)
           'oneself', 'subcls', 'x_self', 'this', 'T']
FRESH_PAIRS = [('zq', 'zqq'), ('zq', 'zq_'), ('zqa', 'zq'), ('w__zq', 'zq'), ('selfish', 'self_'), ('var', 'var_'), ('name', 'names'), ('z', 'zz')]


def user_identifiers(sources: dict) -> list:
    """Spellings bound by the program (defs, params, locals, fields, classes, loop/except/lambda/comprehension vars, imports)."""
    import ast
    names = []

    def add(n):
        # (a leading underscore is an access level, not only a spelling: such names are not renamed)
        if n and n not in RESERVED and not n.startswith('_') and n not in names and n not in sources:
            names.append(n)
    for src in sources.values():
        for node in ast.walk(ast.parse(src)):
            if isinstance(node, (ast.FunctionDef, ast.ClassDef)):
                add(node.name)
            elif isinstance(node, ast.arg):
                add(node.arg)
            elif isinstance(node, ast.Name) and isinstance(node.ctx, ast.Store):
                add(node.id)
            elif isinstance(node, ast.Attribute) and isinstance(node.ctx, ast.Store):
                add(node.attr)
            elif isinstance(node, ast.AnnAssign) and isinstance(node.target, ast.Name):
                add(node.target.id)
            elif isinstance(node, ast.ExceptHandler):
                add(node.name)
            elif isinstance(node, ast.alias):
                add(node.asname or (node.name if '.' not in node.name else None))
    return names


def rename_python(src: str, mapping: dict) -> str:
    out = []
    toks = list(tokenize.generate_tokens(io.StringIO(src).readline))
    # untokenize with exact spacing: rebuild from positions
    lines = src.split('\n')
    result = []
    prev = (1, 0)
    for t in toks:
        if t.type == tokenize.ENDMARKER:
            break
        (sl, sc), (el, ec) = t.start, t.end
        # text between prev end and this start
        if (sl, sc) != prev:
            if sl == prev[0]:
                result.append(lines[sl - 1][prev[1]:sc])
            else:
                result.append(lines[prev[0] - 1][prev[1]:] + '\n')
                for ln in range(prev[0] + 1, sl):
                    result.append(lines[ln - 1] + '\n')
                result.append(lines[sl - 1][:sc])
        text = t.string
        if t.type == tokenize.NAME and text in mapping:
            text = mapping[text]
        elif t.type == tokenize.STRING and text[1:-1] in mapping and len(text) >= 2 and text[0] in '"\'' and _is_forward_ref(src, t):
            text = text[0] + mapping[text[1:-1]] + text[-1]
        result.append(text)
        prev = (el, ec)
    return ''.join(result)


def _is_forward_ref(src: str, tok) -> bool:
    """A quoted class name used as an annotation (-> 'Shape') is an occurrence of the identifier."""
    line = src.split('\n')[tok.start[0] - 1]
    before = line[:tok.start[1]].rstrip()
    return before.endswith('->') or before.endswith(':')


def rename_text(text: str, mapping: dict) -> str:
    """Whole-identifier replacement outside string literals (C++ output, symbol keys, type descriptions)."""
    out = []
    i = 0
    pattern = re.compile(r'"(?:\\.|[^"\\])*"|\'(?:\\.|[^\'\\])*\'|[A-Za-z_][A-Za-z_0-9]*')
    for m in pattern.finditer(text):
        out.append(text[i:m.start()])
        tok = m.group(0)
        out.append(mapping.get(tok, tok) if tok[0] not in '"\'' else tok)
        i = m.end()
    out.append(text[i:])
    return ''.join(out)


def observe(sources: dict, immutable=None):
    """Returns ('ok', {module: cpp}, {key: type description}) or ('err', class, message)."""
    from mc.tranp.session import Session, VIEW_ENV
    from rogw.tranp.errors import Errors
    from rogw.tranp.semantics.reflection.helper.naming import ClassShorthandNaming
    try:
        view_env = None
        if immutable:
            view_env = {'immutable_param_types': list(VIEW_ENV['immutable_param_types']) + list(immutable)}
        s = Session(dict(sources), view_env=view_env)
        outs = {m: s.transpile(m) for m in sources}
        table = {}
        for m in sources:
            for key, raw in s.db.items(m):
                try:
                    table[key] = ClassShorthandNaming.domain_name_for_debug(raw)
                except Exception as e:  # noqa
                    table[key] = f'<{type(e).__name__}>'
        return ('ok', outs, table)
    except Errors.Error as e:
        return ('err', type(e).__name__, str(e)[:300])
    except Exception as e:  # noqa
        return ('err', 'raw:' + type(e).__name__, str(e)[:300])


def immutable_of(pname: str, mapping: dict):
    if '@immutable:' not in pname:
        return None
    return [mapping.get(k, k) for k in pname.split('@immutable:')[1].split(',')]


def fresh_class(n: str) -> str:
    if n.startswith('self') or n.startswith('cls') or n.startswith('super') or n.startswith('Enum') or n.startswith('range') or n.endswith('self') or n.endswith('cls'):
        return 'extends-reserved-word'
    if n in ('var', 'name', 'block', 'assign', 'class_def', 'function_def_raw', 'names', 'var_'):
        return 'grammar-tag'
    if '__' in n:
        return 'double-underscore'
    if re.fullmatch(r'\w+_\d+', n):
        return 'generated-id-lookalike'
    if len(n) >= 30:
        return 'long'
    return 'plain'


def resubmitted(sources: dict, renamed_sources: dict, immutable=None, decoy_names=None):
    """One live session (what the interactive mode does): the program is transpiled, then every module is replaced by its
    renamed text under the same module path and transpiled again. Returns the second outputs or ('err', ...)."""
    from mc.tranp.session import Session, VIEW_ENV
    try:
        view_env = None
        if immutable:
            view_env = {'immutable_param_types': list(VIEW_ENV['immutable_param_types']) + list(immutable)}
        s = Session(dict(sources), view_env=view_env)
        if decoy_names:
            # an unrelated earlier submission under the same module path in which the fresh names mean something else
            # (generic functions): whatever the session remembers about those names must not reach the renamed program
            first = next(iter(sources))
            import keyword
            names = [n for n in decoy_names if n.isidentifier() and not keyword.iskeyword(n)]
            s.sources[first] = "from typing import TypeVar\n\nT_Decoy = TypeVar('T_Decoy')\n\n" + ''.join(f'def {n}(v: T_Decoy) -> T_Decoy:\n\treturn v\n\n' for n in names)
            try:
                s.transpile(first)
            except Exception:  # noqa  -- the decoy only builds history
                pass
            s.sources[first] = sources[first]
            s.unload(first)
        for m in sources:
            s.transpile(m)
        for m in sources:
            s.sources[m] = renamed_sources[m]
        for m in sources:
            s.unload(m)
        return ('ok', {m: s.transpile(m) for m in sources})
    except Exception as e:  # noqa
        return ('err', type(e).__name__, str(e)[:300])


def worker(task):
    pname, sources, base, mapping, role = task[:5]
    renamed_sources = {m: rename_python(src, mapping) for m, src in sources.items()}
    got = observe(renamed_sources, immutable_of(pname, mapping))
    viol = []
    kinds = '+'.join(sorted({fresh_class(v) for v in mapping.values()}))
    rep = {'program': pname, 'mapping': mapping}
    if got[0] == 'err':
        viol.append((['renamed-program-rejected', got[1], f'role={role}', f'fresh={kinds}'], f'{pname}: renaming {mapping} makes the transpiler fail: {got[1]}: {got[2]}', rep))
        return viol, 0
    _, outs, table = got
    for m in sources:
        want = rename_text(base[1][m], mapping)
        if outs[m] != want:
            a, b = want.split('\n'), outs[m].split('\n')
            i = next((k for k in range(min(len(a), len(b))) if a[k] != b[k]), min(len(a), len(b)))
            viol.append((['output-differs', f'role={role}', f'fresh={kinds}'], f'{pname}/{m}: renaming {mapping}: line {i + 1}: expected {a[i] if i < len(a) else "<eof>"!r}, got {b[i] if i < len(b) else "<eof>"!r}', rep))
            break
    if len(task) > 5 and task[5] and not viol and '@' not in pname:
        # the renamed program submitted to the session that has just transpiled the original one
        again = resubmitted(sources, renamed_sources, decoy_names=list(mapping.values()))
        if again[0] == 'err':
            viol.append((['renamed-program-rejected', again[1], 'history=resubmitted', f'role={role}'], f'{pname}: renaming {mapping}, submitted after the original program in one session: {again[1]}: {again[2]}', rep))
        else:
            for m in sources:
                if again[1][m] != outs[m]:
                    a, b = outs[m].split('\n'), again[1][m].split('\n')
                    i = next((k for k in range(min(len(a), len(b))) if a[k] != b[k]), min(len(a), len(b)))
                    viol.append((['output-differs', 'history=resubmitted', f'role={role}'], f'{pname}/{m}: renaming {mapping}, submitted after the original program in one session: line {i + 1}: a fresh session gives {a[i] if i < len(a) else "<eof>"!r}, this one {b[i] if i < len(b) else "<eof>"!r}', rep))
                    break
    want_table = {rename_text(k, mapping): rename_text(v, mapping) for k, v in base[2].items()}
    if want_table != table:
        ks = sorted(set(want_table) ^ set(table))
        diff = ks[:3] if ks else [k for k in want_table if want_table[k] != table.get(k)][:3]
        viol.append((['symbols-differ', 'keys' if ks else 'types', f'role={role}', f'fresh={kinds}'], f'{pname}: renaming {mapping}: symbol table differs at {diff}', rep))
    return viol, 1


def enum_members(sources: dict) -> set:
    import ast
    out = set()
    for src in sources.values():
        for node in ast.walk(ast.parse(src)):
            if isinstance(node, ast.ClassDef) and any(getattr(b, 'id', '') == 'Enum' for b in node.bases):
                for st in node.body:
                    if isinstance(st, ast.Assign):
                        out |= {t.id for t in st.targets if isinstance(t, ast.Name)}
    return out


def role_of(sources: dict, ident: str) -> str:
    import ast
    roles = set()
    for src in sources.values():
        for node in ast.walk(ast.parse(src)):
            if isinstance(node, ast.FunctionDef) and node.name == ident:
                roles.add('function')
            elif isinstance(node, ast.ClassDef) and node.name == ident:
                roles.add('class')
            elif isinstance(node, ast.arg) and node.arg == ident:
                roles.add('param')
            elif isinstance(node, ast.Attribute) and node.attr == ident and isinstance(node.ctx, ast.Store):
                roles.add('field')
            elif isinstance(node, ast.Name) and node.id == ident and isinstance(node.ctx, ast.Store):
                roles.add('local')
    for r in ('class', 'function', 'field', 'param', 'local'):
        if r in roles:
            return r
    return 'other'


def run(ctx):
    tasks = []
    bases = {}
    idents = {}
    for pname, sources in PROGRAMS.items():
        base = observe(sources, immutable_of(pname, {}))
        if base[0] != 'ok':
            from mc.core.runner import HarnessError
            raise HarnessError(f'base program {pname} is rejected: {base}')
        bases[pname] = base
        idents[pname] = user_identifiers(sources)
        all_names = set()
        for src in sources.values():
            all_names |= set(re.findall(r'[A-Za-z_][A-Za-z_0-9]*', src))
        for ident in idents[pname]:
            role = role_of(sources, ident)
            for fresh in FRESH_Q:
                if fresh in all_names:
                    continue
                if fresh in ('name', 'value') and ident in enum_members(sources):
                    continue   # reserved by Python's Enum itself
                tasks.append((pname, sources, base, {ident: fresh}, role))
            pass
        # private / protected members: the leading underscores are the access level and stay, the rest of the name is free
        # (also with separator-like fragments: a second double underscore inside the name)
        for ident in sorted({n for src in sources.values() for n in re.findall(r'\b(_{1,2}[A-Za-z][A-Za-z_0-9]*)\b', src) if not n.endswith('__') and n not in RESERVED}):
            prefix = ident[:len(ident) - len(ident.lstrip('_'))]
            for core in ('zq', 'zq__w', ident.lstrip('_') + '__v2', 'x_'):
                fresh = prefix + core
                if fresh not in all_names and fresh != ident:
                    tasks.append((pname, sources, base, {ident: fresh}, 'private-member'))
        for ident in idents[pname]:
            role = role_of(sources, ident)
            # names related to OTHER identifiers of the program (classes and functions): proper prefix / extension
            for o in idents[pname]:
                if o == ident or role_of(sources, o) not in ('class', 'function'):
                    continue
                for fresh in (o + 'x', o[:-1] if len(o) > 2 else o + 'y', o[:max(2, len(o) // 2)]):
                    if fresh not in all_names and fresh not in RESERVED and fresh.isidentifier() and fresh != ident:
                        tasks.append((pname, sources, base, {ident: fresh}, role))
            # names related to the identifier itself: prefix / suffix / embedded
            for fresh in (ident + '_', ident[:-1] if len(ident) > 2 else ident + 'q', 'q' + ident, ident + '__' + ident, ident.upper() if ident.upper() != ident else ident.lower()):
                if fresh not in all_names and fresh not in RESERVED and fresh.isidentifier():
                    tasks.append((pname, sources, base, {ident: fresh}, role))
        if not ctx.quick:
            for i1, i2 in itertools.combinations(idents[pname], 2):
                # swap of two existing names, and simultaneous renaming to related fresh names
                tasks.append((pname, sources, base, {i1: i2, i2: i1}, 'swap'))
                for f1, f2 in FRESH_PAIRS[:4]:
                    if f1 not in all_names and f2 not in all_names:
                        tasks.append((pname, sources, base, {i1: f1, i2: f2}, 'pair'))
    # one renaming per identifier is also submitted to a live session that has transpiled the original program before
    first = set()
    for i, t in enumerate(tasks):
        key = (t[0], tuple(t[3]))
        if key not in first and len(t[3]) == 1:
            first.add(key)
            tasks[i] = t + (True,)
    # the configuration variants repeat only the class renamings (the configuration names classes)
    tasks = [t for t in tasks if '@' not in t[0] or t[4] == 'class']
    ctx.log(f'{len(tasks)} renamings over {sum(len(v) for v in idents.values())} identifiers')
    # determinism self-test: the base observation twice
    again = observe(PROGRAMS['funcs'])
    if again != bases['funcs']:
        from mc.core.runner import HarnessError
        raise HarnessError('two transpilations of the unrenamed program differ')
    res = pool.pmap(worker, tasks, workers=ctx.workers, rotate=ctx.seed)
    ok = 0
    for viol, n in res:
        ok += n
        ctx.merge(viol)
    return {
        'evaluations': len(tasks),
        'distinct_nontrivial': len(tasks),
        'rule': f'programs {list(PROGRAMS)} (functions/locals/params/closures/lambdas/loops/comprehensions/except; classes/fields/methods/property/classmethod/inheritance/enum; two modules with imports); every user identifier ({ {k: len(v) for k, v in idents.items()} }) x fresh names {FRESH_Q} + names derived from the identifier itself (suffix _, truncated, prefixed, doubled with __, case-flipped) + proper prefixes / extensions of every other class or function name of the program; thorough: every swap of two identifiers and simultaneous pairs from {FRESH_PAIRS[:4]}; each renaming is distinct by construction',
        'samples': [t[3] for t in tasks[:3]] + [t[3] for t in tasks[-3:]],
        'accepted_and_compared': ok,
        'identifiers': idents,
        'exhaustive': True,
        'bound': 'single renamings' if ctx.quick else 'single renamings + all swaps + pairs',
        'excluded_names': sorted(RESERVED),
    }


def replay(ctx, data):
    sources = PROGRAMS[data['program']]
    base = observe(sources, immutable_of(data['program'], {}))
    viol, _ = worker((data['program'], sources, base, data['mapping'], 'replay', True))
    ctx.merge(viol)
