"""C12 -- the grammar engine reproduces itself and its compiled rule files.

Fixed points (both tiers): parsing gram.lark with the built-in rules yields those rules; parsing py_gram.lark
yields py_rules(); rendering either tree yields the checked-in rule module byte for byte.
Engine E2: every grammar text with <= r rules whose right-hand sides are expressions of depth <= d over
sequences, alternatives, [ ], ( )*, ( )+, ( )?, bare ( ), unwrap markers and string / regexp terminals:
g = from_ast(parse(text)); from_ast(parse(pretty(g))) must equal g (structural equality defined here), and
both rule sets must produce the same trees for the sentences derived from g.
"""
import itertools
import os

from mc.core import pool
from mc.core.runner import REPO

ID = 'C12'
LEVEL = 'exploration'


def struct(p):
    """Structural form of a Pattern / Patterns (the classes define no __eq__)."""
    from rogw.tranp.implements.syntax.tranp.rule import Pattern
    if isinstance(p, Pattern):
        return ('P', p.role.name, p.comp.name, p.expression)
    return ('G', p.op.name, p.rep.name, tuple(struct(e) for e in p.entries))


def rules_struct(rules):
    return tuple((sym, struct(rules[sym.split('[')[0]])) for sym in rules.org_symbols())


_state: dict = {}


def parser(shared: bool = False):
    """A fresh parser, or the one parser object this process reuses for every text (as gram_check's interactive mode does)."""
    from data.syntax.gram_rules import gram_rules
    from data.syntax.gram_tokenizer import gram_tokenizer
    from rogw.tranp.implements.syntax.tranp.syntax import SyntaxParser
    if not shared:
        return SyntaxParser(gram_rules(), gram_tokenizer())
    if 'p' not in _state:
        _state['p'] = SyntaxParser(gram_rules(), gram_tokenizer())
    return _state['p']


def compile_text(text: str, shared: bool = False):
    from rogw.tranp.implements.syntax.tranp.rule import Rules
    tree = parser(shared).parse(text, 'entry')
    return tree, Rules.from_ast(tree.simplify())


def in_meta_grammar(text: str):
    """Membership of the text's token list in the meta-grammar by the independent reference recogniser (None: no token list)."""
    from data.syntax.gram_rules import gram_rules
    from mc.oracle.cfg_ref import Recognizer
    if 'r' not in _state:
        _state['r'] = Recognizer(gram_rules())
    try:
        toks = [t.string for t in parser().tokenizer.parse(text)]
    except Exception:  # noqa
        return None
    return _state['r'].accepts(toks, 'entry')


def literal_terminals(text: str) -> set:
    """(comp, body) of every terminal literal written in a grammar text, by a plain left-to-right scan."""
    import re
    out = set()
    for line in text.split('\n'):
        line = line.split(':=', 1)[1] if ':=' in line else ''
        for m in re.finditer(r'"(?:[^"\\]|\\.)*"|/(?:[^/\\]|\\.)+/', line):
            lit = m.group(0)
            body = lit[1:-1]
            if lit[0] == '"':
                body = {'\\t': '\t', '\\n': '\n', '\\r': '\r', '\\f': '\f'}.get(body, body)
            out.add(('Equals' if lit[0] == '"' else 'Regexp', body))
    return out


def rule_terminals(rules) -> set:
    out = set()

    def walk(x):
        if x[0] == 'P':
            if x[1] == 'Terminal':
                out.add((x[2], x[3]))
        else:
            for e in x[3]:
                walk(e)
    for _, st in rules_struct(rules):
        walk(st)
    return out


# ------------------------------------------------------------------------------------- fixed points

def strip_doc(text: str) -> str:
    import re
    text = re.sub(r'\n\t"""[\s\S]*?"""\n', '\n', text, count=1)
    return text.rstrip('\n') + '\n'


def fixed_points(ctx):
    from data.syntax.gram_rules import gram_rules
    from data.syntax.py_rules import py_rules
    from rogw.tranp.bin.gram_check import App, Args
    n = 0
    for gram, rules_fn, out in (('gram.lark', gram_rules, 'gram_rules.py'), ('py_gram.lark', py_rules, 'py_rules.py')):
        path = os.path.join(REPO, 'data', 'syntax', gram)
        with open(path, 'rb') as f:
            text = f.read().decode('utf-8')
        rep = {'fixed_point': gram}
        try:
            tree, rules = compile_text(text)
        except Exception as e:  # noqa
            ctx.violation(['fixed-point', gram, 'parse-raises', type(e).__name__], f'{gram}: {type(e).__name__}: {str(e)[:300]}', rep)
            continue
        n += 1
        app = App(Args(['-i', path, '-o', out]))
        rendered = app.render_rules(tree)
        with open(os.path.join(REPO, 'data', 'syntax', out), 'rb') as f:
            shipped = f.read().decode('utf-8')
        # (a) the rendered module, executed, yields the rules of the checked-in module
        ns: dict = {}
        try:
            exec(compile(rendered, out, 'exec'), ns)
            compiled_rules = ns[out[:-3]]()
            if rules_struct(compiled_rules) != rules_struct(rules_fn()):
                a, b = rules_struct(compiled_rules), rules_struct(rules_fn())
                diff = [x[0] for x, y in zip(a, b) if x != y][:3] or ['<rule count>']
                ctx.violation(['fixed-point', gram, 'rules-differ'], f'{gram}: compiled rules differ from {out} at {diff}', rep)
        except Exception as e:  # noqa
            ctx.violation(['fixed-point', gram, 'rendered-module-broken', type(e).__name__], f'{out}: rendered module does not execute: {type(e).__name__}: {e}', rep)
        n += 1
        # (b) text equality; a hand-written docstring of the generated function and trailing blank lines are documentation
        if strip_doc(rendered) != strip_doc(shipped):
            la, lb = strip_doc(rendered).split('\n'), strip_doc(shipped).split('\n')
            i = next((k for k in range(min(len(la), len(lb))) if la[k] != lb[k]), min(len(la), len(lb)))
            ctx.violation(['fixed-point', gram, 'rendered-file-differs'], f'{out}: rendered {la[i] if i < len(la) else "<eof>"!r}, checked in {lb[i] if i < len(lb) else "<eof>"!r}', rep)
        n += 1
        # (c) for the meta-grammar: the rules it compiles to are the engine's built-in rules, and printing them round-trips
        if gram == 'gram.lark' and rules_struct(rules) != rules_struct(rules_fn()):
            ctx.violation(['fixed-point', gram, 'self-reproduction'], 'parsing gram.lark with the built-in rules does not yield the built-in rules', rep)
        try:
            _, again = compile_text(rules_fn().pretty() + '\n')
            if rules_struct(again) != rules_struct(rules_fn()):
                ctx.violation(['fixed-point', gram, 'pretty-roundtrip'], f'pretty({out}) does not compile back to the same rules', rep)
        except Exception as e:  # noqa
            ctx.violation(['fixed-point', gram, 'pretty-roundtrip', type(e).__name__], f'pretty({out}) cannot be compiled: {type(e).__name__}: {str(e)[:200]}', rep)
        n += 1
    return n


# ------------------------------------------------------------------------------------- generated grammars

TERMINALS = ['"x"', '"\\n"', '"["', '"|"', '/a+/', '/[\\/]/', '/"/', '"("', '/a\\//', '/\\//', '"/"', '"\\times"', '"\\nx"', '"\'"', "/'/", '"it\'s"', "/a'b/"]


def exprs(depth: int, symbols, terms_cache={}):
    """Right-hand-side expression texts of nesting depth <= depth."""
    key = (depth, tuple(symbols))
    if key in terms_cache:
        return terms_cache[key]
    atoms = list(symbols) + TERMINALS[:3 if depth > 0 else len(TERMINALS)]
    out = list(atoms)
    if depth > 0:
        inner = exprs(depth - 1, symbols)
        small = inner[:14]
        wrapped = []
        for e in small:
            wrapped += [f'[{e}]', f'({e})*', f'({e})+', f'({e})?', f'({e})']
        out += wrapped
        # sequences and alternatives of 2 items (3 for atoms only)
        items = atoms[:4] + wrapped[:12]
        for a, b in itertools.product(items, repeat=2):
            out.append(f'{a} {b}')
            out.append(f'{a} | {b}')
        for a, b, c in itertools.product(atoms[:3], repeat=3):
            out.append(f'{a} {b} | {c}')
            out.append(f'{a} | {b} {c}')
            out.append(f'{a} | {b} | {c}')
            out.append(f'{a} {b} {c}')
    terms_cache[key] = out
    return out


def grammars(quick: bool):
    depth = 2
    unwraps = ['', '[1]', '[*]']
    # one rule + a terminal rule it may refer to
    base_rule = 't := "y"\n'
    for u in unwraps:
        for e in exprs(depth, ['t', 'entry']):
            yield f'entry{u} := {e}\n' + base_rule
    # two rules referring to each other
    e2 = exprs(1, ['t', 'r2'])
    e3 = exprs(1, ['t'])
    for a in e2[:60 if quick else len(e2)]:
        for b in e3[:12 if quick else 40]:
            for u in (unwraps if not quick else ['', '[1]']):
                yield f'entry := {a}\nr2{u} := {b}\n' + base_rule
    if not quick:
        e4 = exprs(1, ['t', 'r2', 'r3'])
        for a in e4[:40]:
            for b in e3[:10]:
                for c in e3[5:15]:
                    yield f'entry := {a}\nr2 := {b}\nr3[1] := {c}\n' + base_rule


def terminal_grammars():
    """Every terminal of the alphabet in every simple position (the nested enumeration only reaches the first dozen)."""
    for t in TERMINALS:
        for u in ('', '[1]'):
            for rhs in (t, f'{t} t', f't {t}', f'({t})* t', f'[{t}] t', f't | {t}', f'({t} | t)+', f'{t} {t}'):
                yield f'entry{u} := {rhs}\nt := "y"\n'


def wide_grammars():
    """Rules whose one-line form is wide (80 .. 700 columns): many alternatives / items with long names, as in real grammars
    (the statement and atom rules of py_gram.lark are 90+ columns wide)."""
    for k in (3, 6, 10, 14, 24):
        names = [f'statement_kind_{i:02d}' for i in range(k)]
        defs = ''.join(f'{n} := "{chr(97 + i % 26)}{i}"\n' for i, n in enumerate(names))
        for u in ('', '[1]'):
            yield f'entry{u} := ' + ' | '.join(names) + '\n' + defs
            yield f'entry{u} := ' + ' '.join(names) + '\n' + defs
            yield f'entry{u} := ' + ' | '.join(f'{a} {b}' for a, b in zip(names, names[1:] + names[:1])) + '\n' + defs
            yield f'entry{u} := (' + ' | '.join(names) + ')* ' + names[0] + '\n' + defs
            yield f'entry{u} := [' + ' | '.join(names) + '] ' + names[-1] + '\n' + defs
            yield f'entry{u} := ' + ' | '.join(f'"{n}"' for n in names) + '\n' + defs
            yield f'entry{u} := ' + ' | '.join(f'/{n}[0-9]+/' for n in names) + '\n' + defs


def shape_class(text: str) -> str:
    import re
    rhs = text.split('\n')[0].split(':=', 1)[1]
    feats = []
    if re.search(r'\)\s*$|\)\s[^*+?|]|\)\s*\|', rhs.replace(')*', '').replace(')+', '').replace(')?', '')):
        feats.append('bare-group')
    if '|' in rhs.replace('"|"', ''):
        feats.append('alt')
    if '[' in rhs.replace('"["', '').replace('/[\\/]/', ''):
        feats.append('opt')
    if any(x in rhs for x in (')*', ')+', ')?')):
        feats.append('rep')
    return '+'.join(feats) or 'plain'


CANARY = 'entry[1] := (t)* [t | "x"]\nt := /a\\//\n'
CANARY_STRUCT = (
    ('entry[1]', ('G', 'And', 'NoRepeat', (
        ('G', 'And', 'OverZero', (('P', 'Symbol', 'NoComp', 't'),)),
        ('G', 'And', 'OneOrEmpty', (('G', 'Or', 'NoRepeat', (('P', 'Symbol', 'NoComp', 't'), ('P', 'Terminal', 'Equals', 'x'))),)),
    ))),
    ('t', ('P', 'Terminal', 'Regexp', 'a\\/')),
)


def canary(prev: str):
    """After a rejected text the same parser object must still compile the canary grammar to the expected rules."""
    try:
        _, g = compile_text(CANARY, shared=True)
        if rules_struct(g) == CANARY_STRUCT:
            return None
        what = f'compiles to {rules_struct(g)!r}'
    except Exception as e:  # noqa
        what = f'{type(e).__name__}: {str(e)[:120]}'
    _state.pop('p', None)
    return ('viol', (['history-dependent', 'after-rejected-text'], f'after the rejected text {prev!r} the same parser no longer compiles {CANARY!r} correctly: {what}', {'grammar': CANARY, 'prev': prev}))


def malformed(text: str):
    """Every single-token deletion of a grammar text."""
    import re
    toks = re.findall(r'"(?:[^"\\]|\\.)*"|/(?:[^/\\]|\\.)+/|:=|\w+|\n|[^\s\w]', text)
    for i in range(len(toks)):
        if toks[i] == '\n':
            continue
        yield ' '.join(toks[:i] + toks[i + 1:]).replace(' \n ', '\n').replace(' \n', '\n')


def rendered_module_rules(text: str):
    """rules_struct of the rules obtained by executing the module text gram_check renders for the grammar; or 'Error: ...'."""
    from rogw.tranp.bin.gram_check import App, Args
    try:
        tree, _ = compile_text(text, shared=True)
        rendered = App(Args(['-i', 'gen.lark', '-o', 'gen_rules.py'])).render_rules(tree)
        ns: dict = {}
        exec(compile(rendered, 'gen_rules.py', 'exec'), ns)
        return rules_struct(ns['gen_rules']())
    except Exception as e:  # noqa
        return f'{type(e).__name__}: {str(e)[:160]}'


def worker(batch):
    from rogw.tranp.errors import Errors
    out = []
    for text in batch:
        ref = in_meta_grammar(text)
        try:
            _, g = compile_text(text, shared=True)
        except Errors.Syntax as e:
            if ref is True:
                out.append(('viol', (['derivable-grammar-rejected', shape_class(text)], f'{text!r}: its token list is derivable from the meta-grammar (reference recogniser) but the engine rejects it: {str(e)[:120]}', {'grammar': text})))
            else:
                out.append(('skip', None))
            c = canary(text)
            if c:
                out.append(c)
            continue
        except Exception as e:  # noqa
            out.append(('viol', (['compile-raises', type(e).__name__], f'{text!r}: {type(e).__name__}: {str(e)[:200]}', {'grammar': text})))
            _state.pop('p', None)
            continue
        if ref is False:
            out.append(('viol', (['accepted-outside-meta-grammar', shape_class(text)], f'{text!r}: its token list is not derivable from the meta-grammar (reference recogniser) but the engine accepts it', {'grammar': text})))
            continue
        want_t, got_t = literal_terminals(text), rule_terminals(g)
        if want_t != got_t:
            out.append(('viol', (['terminal-body-differs'] + sorted(x[0] for x in want_t ^ got_t)[:1], f'{text!r}: terminals written {sorted(want_t)!r}, compiled rules hold {sorted(got_t)!r}', {'grammar': text})))
            continue
        s1 = rules_struct(g)
        try:
            printed = g.pretty() + '\n'
            _, g2 = compile_text(printed, shared=True)
            s2 = rules_struct(g2)
        except Exception as e:  # noqa
            out.append(('viol', (['reparse-of-pretty-raises', type(e).__name__, shape_class(text)], f'{text!r}: pretty output {g.pretty()!r} cannot be compiled: {type(e).__name__}', {'grammar': text})))
            _state.pop('p', None)
            continue
        if s1 != s2:
            out.append(('viol', (['pretty-roundtrip-differs', shape_class(text)], f'{text.splitlines()[0]!r} is printed as {printed.splitlines()[0]!r}, which compiles to different rules', {'grammar': text})))
        else:
            # every regexp terminal of the compiled rules must be a regular expression (the rules must be usable)
            import re
            bad = None
            for comp, body in got_t:
                if comp == 'Regexp':
                    try:
                        re.compile(body)
                    except re.error as e:
                        bad = (body, str(e))
            if not bad:
                # the rule module gram_check writes for this grammar: executed, it must yield these very rules
                mod = rendered_module_rules(text)
                if isinstance(mod, str):
                    out.append(('viol', (['rendered-module-broken', mod.split(':')[0]] + sorted({t[0] + ':' + ('quote' if "'" in t[1] and "\\'" not in t[1] else 'backslash' if '\\' in t[1] else 'newline') for t in got_t if "'" in t[1] or '\\' in t[1] or '\n' in t[1]})[:1], f'{text!r}: the rule module rendered for it does not execute: {mod}', {'grammar': text})))
                    continue
                if mod != s1:
                    out.append(('viol', (['rendered-module-differs', shape_class(text)], f'{text!r}: the rule module rendered for it yields other rules', {'grammar': text})))
                    continue
            if bad:
                out.append(('viol', (['compiled-terminal-unusable'], f'{text!r}: compiled terminal {bad[0]!r} is not a regular expression: {bad[1]}', {'grammar': text})))
            else:
                out.append(('ok', len(s1)))
    return out


PY_SENTENCES = ['a + b * c\n', 'x = f(a, b)[0]\n', 'if a:\n\tb\nelif c:\n\td\nelse:\n\te\n', 'for i in a:\n\tb = i\n', 'while a < b:\n\tbreak\n',
                'def f(a: int, b: str = 1) -> None:\n\treturn a if b else c\n', 'g = lambda c, d: c\n', 'x = not a and b or c in d\n', "y = {'k': [1, 2], 'l': (a, b)}\n", 'raise E(a)\n',
                'a.b.c = d[1:2]\n', 'z = (x := 1)\n', 'f(*a, **b, k=1)\n', 'x = -a\n', 'return\n', 'if a:\n    b\nc\n']


def python_trees():
    """Verdict and tree of every Python sentence under the checked-in py_rules()."""
    from data.syntax.py_rules import py_rules
    from rogw.tranp.errors import Errors
    from rogw.tranp.implements.syntax.tranp.syntax import SyntaxParser
    p_ = SyntaxParser(py_rules())
    out = {}
    for sent in PY_SENTENCES:
        try:
            out[sent] = ('ok', p_.parse(sent, 'entry').simplify())
        except Errors.Syntax:
            out[sent] = ('syntax-error', None)
        except Exception as e:  # noqa
            out[sent] = ('raises', type(e).__name__)
    return out


def compiled_rules_equivalence(ctx, before=None):
    """The rules compiled from py_gram.lark and the checked-in py_rules() give the same verdict and tree for every
    sentence; afterwards -- the process has now parsed Python text, keywords and all, with another rule set -- the
    fixed points must still hold (the order gram -> python -> gram is what a build script does)."""
    from data.syntax.py_rules import py_rules
    from rogw.tranp.errors import Errors
    from rogw.tranp.implements.syntax.tranp.syntax import SyntaxParser
    n = 0
    path = os.path.join(REPO, 'data', 'syntax', 'py_gram.lark')
    with open(path, 'rb') as f:
        text = f.read().decode('utf-8')
    try:
        _, compiled = compile_text(text)
    except Exception as e:  # noqa
        ctx.violation(['fixed-point', 'py_gram.lark', 'parse-raises', type(e).__name__], f'py_gram.lark: {type(e).__name__}: {str(e)[:200]}', {'fixed_point': 'py_gram.lark'})
        return 0
    pa, pb = SyntaxParser(compiled), SyntaxParser(py_rules())
    for sent in PY_SENTENCES + [s_.replace('\t', '        ') for s_ in PY_SENTENCES if '\t' in s_]:
        outs = []
        for p_ in (pa, pb):
            try:
                outs.append(('ok', p_.parse(sent, 'entry').simplify()))
            except Errors.Syntax:
                outs.append(('syntax-error', None))
            except Exception as e:  # noqa
                outs.append(('raises', type(e).__name__))
        n += 1
        if before is not None and sent in before and before[sent] != outs[1]:
            ctx.violation(['python-tree-depends-on-history'], f'{sent!r}: py_rules() gave {str(before[sent])[:120]} before the grammars were compiled in this process and {str(outs[1])[:120]} afterwards', {'fixed_point': 'py_gram.lark'})
        if outs[0] != outs[1]:
            ctx.violation(['compiled-rules-differ', outs[0][0], outs[1][0]], f'{sent!r}: rules compiled from py_gram.lark -> {str(outs[0])[:160]}, py_rules() -> {str(outs[1])[:160]}', {'fixed_point': 'py_gram.lark'})
        elif outs[0][0] != 'ok':
            ctx.violation(['shipped-sentence-rejected', outs[0][0]], f'{sent!r} is rejected by both rule sets: {outs[0]}', {'fixed_point': 'py_gram.lark'})
    return n + fixed_points(ctx)


def run(ctx):
    # order of a build script: parse Python text, compile the grammars, parse again, compile again -- all in one process
    before = python_trees()
    n_fixed = fixed_points(ctx)
    n_fixed += compiled_rules_equivalence(ctx, before)
    gs = []
    seen = set()
    for g in itertools.chain(grammars(ctx.quick), wide_grammars(), terminal_grammars()):
        if g not in seen:
            seen.add(g)
            gs.append(g)
    n_well = len(gs)
    # malformed layer: every single-token deletion of the single-rule grammars (depth <= 1 right-hand sides)
    mal = []
    for e in exprs(1, ['t', 'entry']):
        for m in malformed(f'entry := {e}\nt := "y"\n'):
            if m not in seen:
                seen.add(m)
                mal.append(m)
    # interleave: a malformed text is followed by well-formed ones on the same parser object
    k = max(1, len(gs) // max(1, len(mal)))
    mixed = []
    it = iter(mal)
    for i, g in enumerate(gs):
        if i % k == 0:
            m = next(it, None)
            if m is not None:
                mixed.append(m)
        mixed.append(g)
    mixed += list(it)
    gs = mixed
    ctx.log(f'{n_well} grammar texts + {len(mal)} single-token deletions')
    res = pool.pmap(worker, pool.chunked(gs, 200), workers=ctx.workers, rotate=ctx.seed)
    ok = skipped = 0
    for r in res:
        for kind, payload in r:
            if kind == 'ok':
                ok += 1
            elif kind == 'skip':
                skipped += 1
            else:
                ctx.violation(*payload)
    return {
        'evaluations': len(gs) + n_fixed,
        'distinct_nontrivial': ok + n_fixed,
        'rule': f'fixed points on data/syntax/gram.lark and py_gram.lark (rules equality and rendered rule module byte equality), {len(PY_SENTENCES)} Python sentences (tab and 8-space indented) parsed with the rules compiled from py_gram.lark and with py_rules() (same verdict and tree), then the fixed points again in the same process; every grammar text of 1-{"2" if ctx.quick else "3"} rules (+ a terminal rule) whose right-hand sides nest [ ], ( )*, ( )+, ( )?, bare ( ) to depth 2 over sequences and alternatives of symbols and terminals {TERMINALS}, unwrap markers none/[1]/[*]; non-trivial = compiled and round-tripped; texts are distinct; every single-token deletion of the single-rule depth-1 grammars is interleaved (malformed layer); one parser object per worker process is reused for all texts, and after every rejected text it must still compile a canary grammar to hand-written expected rules; every accept/reject verdict is compared with an independent context-free reference recogniser over gram_rules() (mc/oracle/cfg_ref.py); the terminals of the compiled rules are compared with the literals scanned from the text',
        'samples': gs[:2] + gs[len(gs) // 2: len(gs) // 2 + 2] + gs[-1:],
        'rejected_by_meta_grammar': skipped,
        'exhaustive': True,
        'bound': 'depth 2 expressions',
    }


def replay(ctx, data):
    if 'fixed_point' in data:
        before = python_trees()
        fixed_points(ctx)
        compiled_rules_equivalence(ctx, before)
        return
    if data.get('prev') is not None:
        for kind, payload in worker([data['prev']]):
            if kind == 'viol':
                ctx.violation(*payload)
        return
    for kind, payload in worker([data['grammar']]):
        if kind == 'viol':
            ctx.violation(*payload)
