"""C02 -- the node tree groups programs exactly as CPython parses them.

Engine E2: complete enumeration of grammar sentences (hole-context composition for expressions up to n
operator applications, templates for statements up to nesting depth d); oracle = canonical form of
CPython's ast for the same text, including the function classification Python semantics dictates.
"""
import ast

from mc.core import pool
from mc.gen import larksent
from mc.oracle import canon_ast

ID = 'C02'
LEVEL = 'exploration'

_state = {}


def _init_worker():
    from mc.tranp.session import Session
    from rogw.tranp.syntax.ast.entrypoints import Entrypoints
    from rogw.tranp.syntax.ast.parser import SyntaxParser
    s = Session({'__main__': 'a = 1\n'})
    _state['session'] = s
    _state['eps'] = s.get(Entrypoints)
    _state['lark'] = s.get(SyntaxParser).dirty_get_origin()


def nodes_of(src: str):
    s = _state['session']
    s.sources['__main__'] = src
    _state['eps'].unload('__main__')
    return _state['eps'].load('__main__')


def judge(src: str):
    """Returns ('skip', why) | ('ok', n_nodes) | ('viol', signature, what)."""
    from rogw.tranp.errors import Errors
    text = src if src.endswith('\n') else src + '\n'
    try:
        tree = ast.parse(text)
    except (SyntaxError, ValueError, RecursionError):
        return ('skip', 'cpython-rejects')
    try:
        _state['lark'].parse(text)
    except Exception:  # noqa
        return ('skip', 'lark-rejects')
    try:
        want = tuple(canon_ast.py_stmt(s, 'module') for s in tree.body)
    except canon_ast.Unsupported as e:
        return ('skip', f'unsupported:{e}')
    try:
        ep = nodes_of(text)
        got = canon_ast.canon_tranp_module(ep)
        # the same node objects read again with the properties in the other order, then a fresh tree read in that order
        def walked():
            # a fresh tree that has been flattened once before it is read (what module expansion and every Procedure run do)
            ep2 = nodes_of(text)
            try:
                list(ep2.procedural())
            except Errors.Error:
                pass
            return canon_ast.canon_tranp_module(ep2)
        for again in (canon_ast.canon_tranp_module(ep, 'statements-first'), canon_ast.canon_tranp_module(ep), canon_ast.canon_tranp_module(nodes_of(text), 'statements-first'), walked()):
            if again != got and got == want:
                got = again
                break
    except canon_ast.Mismatch as e:
        return ('viol', ['shape', str(e).split(' with ')[0][:60]], f'{src!r}: {e}; cpython tree {want!r}')
    except Errors.Error as e:
        return ('viol', ['node-error', type(e).__name__, _where(e)], f'{src!r}: building the node tree raised {type(e).__name__}: {e}')
    except Exception as e:  # noqa
        return ('viol', ['node-crash', type(e).__name__, _head(want)], f'{src!r}: building the node tree raised {type(e).__name__}: {e}')
    if got != want and got == _drop_later_docstrings(want):
        return ('viol', ['tree-differs', 'later-docstring-statement-dropped'], f'{src!r}: a triple-quoted string statement that is not the first statement of its block is missing from `statements`\n   cpython: {want!r}\n   tranp:   {got!r}')
    if got != want:
        dc = canon_ast.diff_class(want, got) or ('unknown',)
        return ('viol', ['tree-differs'] + [str(x) for x in dc], f'{src!r}: {canon_ast.first_diff(want, got)}\n   cpython: {want!r}\n   tranp:   {got!r}')
    return ('ok', _count(want))


def _drop_later_docstrings(t):
    """The canonical tree without string expression statements that follow the first statement of a class/def body."""
    if not isinstance(t, tuple):
        return t
    if t and t[0] in ('Class', 'Def') and isinstance(t[-1], tuple):
        body = t[-1]
        kept = tuple(s for i, s in enumerate(body) if i == 0 or not (isinstance(s, tuple) and len(s) == 2 and s[0] == 'Expr' and isinstance(s[1], tuple) and s[1][:1] == ('Str',)))
        return tuple(_drop_later_docstrings(x) for x in t[:-1]) + (tuple(_drop_later_docstrings(x) for x in kept),)
    return tuple(_drop_later_docstrings(x) for x in t)


def _where(e) -> str:
    """Last two (de-identified) path tags of the node an application error is attached to."""
    import re
    for a in getattr(e, 'args', ()):
        fp = getattr(a, 'full_path', None)
        if isinstance(fp, str):
            return '.'.join(re.sub(r'\[\d+\]', '', t) for t in fp.split('.')[-2:])
    return '?'


def _head(t):
    try:
        return str(t[0][0])
    except Exception:  # noqa
        return '?'


def _count(t) -> int:
    if isinstance(t, tuple):
        return 1 + sum(_count(x) for x in t)
    return 0


def worker(batch):
    out = []
    for src, meta in batch:
        r = judge(src)
        if meta[0] == 'extra' and r[0] == 'viol':
            r = ('viol', ['reviewer-shape', src] + list(r[1]), r[2])   # one signature per shape: nothing else can hide behind it
        out.append((src, meta, r))
    return out


def sentences(ctx):
    max_ops = 2 if ctx.quick else 3
    for n, e in larksent.expr_layers(max_ops):
        yield e, ('expr', n)
        if n <= 1:
            yield f'x = {e}', ('assign-expr', n)
    small = [e for n, e in larksent.expr_layers(1)]
    stmts = larksent.statements(1 if ctx.quick else 2, small if not ctx.quick else small[::3] + ['a if b else c', 'not a', 'a < b', 'lambda x: a'], ['a', 'f(b)'])
    for s in stmts:
        yield s, ('stmt', 0)
    # shapes reported by reviewers of the unchanged tree (kept as generator cases)
    for s in ['try:\n\tpass\nexcept E:\n\tpass', '(a, b), c = x', 'class C:\n\tdef __init__(self) -> None:\n\t\tself.a, self.b = 1, 2', 'def f(self) -> None:\n\tpass',
              'class C:\n\tdef m(this) -> None:\n\t\tpass', 'def f() -> None:\n    x = 1\n\x0c    y = 2', 'x = {**a, "k": 1}', 'x = [*a, 1]', 'a, b = b, a', 'x = a if b else c if d else e',
              'try:\n\tpass\nexcept (E, F) as e:\n\tpass', 'with a as (b, c):\n\tpass', 'for (a, b), c in d:\n\tpass', 'x = a[1:2, ::3]', 'x = (yield)', 'x: int', 'del a, b', 'assert a, b', 'global a', 'nonlocal a',
              'raise E from f', 'import a.b', 'from . import a', 'from a import (b, c)', 'lambda *a, **k: a', 'x = f(a for a in b)', 'x = [a for a in b if c if d]', 'x = {a: b for a, b in c}', 'x = a @ b', 'x = a // b', 'x = a ** -b',
              # round 8
              'b, = c', 'for i, in a:\n\tpass', "x = f'{a}'", "x = b'a'", 'class C:\n\tif a:\n\t\tdef m(self) -> None:\n\t\t\tpass', 'class C:\n\t@staticmethod\n\tdef g(self) -> None:\n\t\tpass',
              'x: tuple[int, ...] = y', 'x: a.B[C].D = 1', '(a, b) = c', '[a, b] = c', 'del (a)', 'x.y: int = 1', 'x[0]: int = 1', 'x = 0b11', 'x = 0o17', 'x = 1j',
              'def f() -> None:\n\tself = 1', 'class C:\n\tdef m(self) -> None:\n\t\tself.b: int = 1']:
        yield s, ('extra', 0)
    # number spellings: exponent forms without a decimal point, hex digits that look like exponents, separators, bare points
    for lit in ['1e5', '2E3', '1e-3', '1E+2', '1.5e3', '1e0', '0x1e5', '0X1F', '0xe', '1_000', '1_0.0_1', '1_0e1_0', '.5', '5.', '5.e1', '.5e-1', '0', '00', '0.0', '1e5j' if False else '1.e5']:
        yield f'x = {lit}', ('literal', 0)
        yield f'b = f({lit}, k={lit})', ('literal', 0)
        yield f'x = -{lit} + a[{lit}]', ('literal', 0)
    # comprehensions: every placement of 0..2 conditions over 1..2 for-clauses, in list / set / dict / generator form
    clauses = [('for a in b', ['', ' if a', ' if a if e']), ('for c in d', ['', ' if c', ' if c if a < c'])]
    for i0 in clauses[0][1]:
        tails = [clauses[0][0] + i0] + [clauses[0][0] + i0 + ' ' + clauses[1][0] + i1 for i1 in clauses[1][1]]
        for tail in tails:
            for form in ('[a {t}]', '{{a {t}}}', '{{a: a {t}}}', 'f(a {t})', '[(a, a) {t}]'):
                yield 'y = ' + form.format(t=tail), ('comprehension', 0)


def run(ctx):
    sents = []
    seen = set()
    for s, meta in sentences(ctx):
        if s not in seen:
            seen.add(s)
            sents.append((s, meta))
    ctx.log(f'{len(sents)} sentences')
    batches = pool.chunked(sents, 400)
    results = pool.pmap(worker, batches, workers=ctx.workers, init=_init_worker, rotate=ctx.seed)
    n = ok = nontriv = 0
    skips = {}
    shapes = set()
    for res in results:
        for src, meta, r in res:
            n += 1
            if r[0] == 'skip':
                skips[r[1].split(':')[0]] = skips.get(r[1].split(':')[0], 0) + 1
            elif r[0] == 'ok':
                ok += 1
                if meta[1] >= 2 or (meta[0] == 'stmt' and '\n' in src):
                    nontriv += 1
                shapes.add(r[1])
            else:
                ctx.violation(r[1], r[2], {'src': src})
    judged = [s for s, m in sents]
    return {
        'evaluations': n,
        'distinct_nontrivial': nontriv,
        'rule': f'expressions: every one-hole context of the grammar ladder (each binary operator on both sides, unary, ternary in 3 slots, call/keyword/star arguments, attribute, index, slice forms, list/tuple/dict displays, lambda, list/dict comprehension slots, group) composed to depth {2 if ctx.quick else 3} bare and parenthesised over leaves {larksent.LEAVES}; statements: every simple statement template x every 1-operator expression, every compound template x body picks, def parameter/decorator/return forms, class/method forms and pairs, nesting depth {1 if ctx.quick else 2}; judged only if both CPython and data/grammar.lark accept; non-trivial = >= 2 operator applications or a multi-line statement',
        'samples': judged[:3] + judged[len(judged) // 2: len(judged) // 2 + 3] + judged[-3:],
        'judged_equal': ok,
        'skipped': skips,
        'distinct_tree_sizes': len(shapes),
        'exhaustive': True,
        'bound': f'<= {2 if ctx.quick else 3} operator applications; statement nesting <= {1 if ctx.quick else 2}',
    }


def replay(ctx, data):
    _init_worker()
    r = judge(data['src'])
    if r[0] == 'viol':
        ctx.violation(r[1], r[2], data)
