"""Differential execution of tranp's C++ output against CPython (C01).

A *program* is a module source plus a list of entry points:
    Entry(name, params=[(pname, kind)], vectors=[tuple of python values], fields={class: [field names]})
The module is transpiled by the real pipeline, compiled with g++ -std=c++20 together with prelude.h,
encode.h and a generated main(), run, and every printed line `name#k=<encoding>` is compared with the line
CPython produces for the same call. Calls whose Python execution touches an operation on which Python and
C++ disagree by construction (negative modulo, division by zero, out-of-range shifts, 32-bit overflow) are
detected by running the Python side with a tracking int subclass and are excluded (counted).
"""
import hashlib
import os
import re
import shutil
import subprocess

CPP_DIR = os.path.join(os.path.dirname(os.path.abspath(__file__)), 'cpp')
GXX = shutil.which('g++') or 'g++'
CXXFLAGS = ['-std=c++20', '-O0', '-w', '-fmax-errors=200']


# ------------------------------------------------------------------------------------------- encoding

def enc(v, fields=None) -> str:
    import enum
    if isinstance(v, bool):
        return 'T' if v else 'F'
    if isinstance(v, enum.Enum):
        return 'e' + str(list(type(v)).index(v) if not isinstance(v.value, int) else v.value)
    if isinstance(v, int):
        return f'i{int(v)}'
    if isinstance(v, float):
        return 'f' + ('%.12g' % v)
    if isinstance(v, str):
        return 's"' + v.replace('\\', '\\\\').replace('"', '\\"').replace('\n', '\\n') + '"'
    if isinstance(v, list):
        return '[' + ','.join(enc(x, fields) for x in v) + ']'
    if isinstance(v, tuple):
        return '(' + ','.join(enc(x, fields) for x in v) + ')'
    if isinstance(v, dict):
        return '{' + ','.join(f'{enc(k, fields)}:{enc(v[k], fields)}' for k in sorted(v)) + '}'
    if v is None:
        return 'N'
    cname = type(v).__name__
    if fields and cname in fields:
        return 'o{' + ','.join(f'{f}={enc(getattr(v, f), fields)}' for f in fields[cname]) + '}'
    return f'?{cname}'


def cpp_literal(v, kind: str) -> str:
    if kind == 'int':
        return str(int(v))
    if kind == 'bool':
        return 'true' if v else 'false'
    if kind == 'float':
        return repr(float(v))
    if kind == 'str':
        return 'std::string("' + v.replace('\\', '\\\\').replace('"', '\\"') + '")'
    if kind == 'list[int]':
        return 'std::vector<int>{' + ', '.join(str(int(x)) for x in v) + '}'
    if kind == 'list[str]':
        return 'std::vector<std::string>{' + ', '.join('"' + x + '"' for x in v) + '}'
    if kind == 'dict[str,int]':
        return 'std::map<std::string, int>{' + ', '.join('{"' + k + '", ' + str(int(x)) + '}' for k, x in v.items()) + '}'
    if kind.startswith('enum:'):
        return f'{kind[5:]}::{v}'
    raise ValueError(kind)


def py_value(v, kind: str, ns: dict):
    if kind.startswith('enum:'):
        return getattr(ns[kind[5:]], v)
    if kind == 'list[int]' or kind == 'list[str]':
        return list(v)
    if kind == 'dict[str,int]':
        return dict(v)
    return v


# ------------------------------------------------------------------------------------------- tracking int

class Flags:
    hit = None


class CInt(int):
    """int that records operations on which Python and C++ semantics differ by construction."""
    pass


def _wrap(v):
    if isinstance(v, bool) or not isinstance(v, int):
        return v
    if abs(int(v)) >= 2 ** 31:
        Flags.hit = Flags.hit or 'overflow'
    return CInt(v)


def _install():
    def binop(name, check=None):
        fn = getattr(int, name)

        def op(self, other):
            if not isinstance(other, int):
                return NotImplemented
            reflected = name.startswith('__r') and name not in ('__rshift__',)
            a, b = (int(other), int(self)) if reflected else (int(self), int(other))
            if check:
                why = check(a, b)
                if why:
                    Flags.hit = Flags.hit or why
            r = fn(int(self), int(other))
            return _wrap(r) if r is not NotImplemented else r
        return op
    mod_check = lambda a, b: 'zero-division' if b == 0 else ('negative-modulo' if a < 0 or b < 0 else None)
    shl_check = lambda a, b: 'shift-range' if b < 0 or b >= 31 or a < 0 else None
    shr_check = lambda a, b: 'shift-range' if b < 0 or b >= 31 else None
    div_check = lambda a, b: 'int-true-division'
    for n in ['add', 'sub', 'mul', 'and', 'or', 'xor']:
        setattr(CInt, f'__{n}__', binop(f'__{n}__'))
        setattr(CInt, f'__r{n}__', binop(f'__r{n}__'))
    CInt.__mod__ = binop('__mod__', mod_check)
    CInt.__rmod__ = binop('__rmod__', mod_check)
    CInt.__floordiv__ = binop('__floordiv__', lambda a, b: 'floor-division')
    CInt.__rfloordiv__ = binop('__rfloordiv__', lambda a, b: 'floor-division')
    CInt.__truediv__ = binop('__truediv__', div_check)
    CInt.__rtruediv__ = binop('__rtruediv__', div_check)
    CInt.__lshift__ = binop('__lshift__', shl_check)
    CInt.__rlshift__ = binop('__rlshift__', shl_check)   # (a, b) are already in operator order for reflected ops
    CInt.__rshift__ = binop('__rshift__', shr_check)
    CInt.__rrshift__ = binop('__rrshift__', shr_check)
    CInt.__neg__ = lambda self: _wrap(-int(self))
    CInt.__pos__ = lambda self: _wrap(int(self))
    CInt.__invert__ = lambda self: _wrap(~int(self))
    CInt.__abs__ = lambda self: _wrap(abs(int(self)))


_install()


# ------------------------------------------------------------------------------------------- program model

class Entry:
    """vectors: explicit list of argument tuples, or grid: per-parameter value lists (row-major product)."""
    def __init__(self, name, params, vectors=None, tag=None, grid=None):
        import itertools
        self.name = name
        self.params = params          # [(name, kind)]
        self.grid = grid
        self.vectors = list(itertools.product(*grid)) if grid is not None else vectors
        self.tag = tag or name        # coarse class used in finding signatures

    def to_json(self):
        return {'name': self.name, 'params': [list(p) for p in self.params], 'vectors': None if self.grid is not None else [list(v) for v in self.vectors], 'grid': self.grid, 'tag': self.tag}

    @classmethod
    def from_json(cls, d):
        return cls(d['name'], [tuple(p) for p in d['params']], [tuple(v) for v in d['vectors']] if d.get('vectors') is not None else None, d.get('tag'), d.get('grid'))


class _Instrument(__import__('ast').NodeTransformer):
    """Pass 1 only: every binary operation (also in augmented assignments) goes through chk_, which records the
    operations on which Python and C++ differ by construction whatever the operand types are (bool operands and
    comparison results escape the CInt tracking: bool + CInt is computed by int.__add__)."""
    import ast as _ast
    OPS = {_ast.Add: '+', _ast.Sub: '-', _ast.Mult: '*', _ast.Mod: '%', _ast.FloorDiv: '//', _ast.Div: '/', _ast.LShift: '<<', _ast.RShift: '>>'}

    def visit_BinOp(self, node):
        ast = self._ast
        self.generic_visit(node)
        op = self.OPS.get(type(node.op))
        if op is None:
            return node
        return ast.copy_location(ast.Call(func=ast.Name(id='chk_', ctx=ast.Load()), args=[ast.Constant(op), node.left, node.right], keywords=[]), node)

    def visit_AugAssign(self, node):
        ast = self._ast
        self.generic_visit(node)
        op = self.OPS.get(type(node.op))
        if op is None or not isinstance(node.target, ast.Name):
            return node
        load = ast.Name(id=node.target.id, ctx=ast.Load())
        call = ast.Call(func=ast.Name(id='chk_', ctx=ast.Load()), args=[ast.Constant(op), load, node.value], keywords=[])
        return ast.copy_location(ast.Assign(targets=[ast.Name(id=node.target.id, ctx=ast.Store())], value=call), node)


def _chk(op, a, b):
    import operator
    fn = {'+': operator.add, '-': operator.sub, '*': operator.mul, '%': operator.mod, '//': operator.floordiv, '/': operator.truediv, '<<': operator.lshift, '>>': operator.rshift}[op]
    if isinstance(a, int) and isinstance(b, int):
        ia, ib = int(a), int(b)
        why = None
        if op in ('%', '//', '/') and ib == 0:
            why = 'zero-division'
        elif op == '%' and (ia < 0 or ib < 0):
            why = 'negative-modulo'
        elif op == '//':
            why = 'floor-division'
        elif op == '/':
            why = 'int-true-division'
        elif op == '<<' and (ib < 0 or ib >= 31 or ia < 0):
            why = 'shift-range'
        elif op == '>>' and (ib < 0 or ib >= 31):
            why = 'shift-range'
        if why:
            Flags.hit = Flags.hit or why
            if why in ('zero-division', 'shift-range'):
                return 0
        r = fn(a, b)
        if isinstance(r, int) and not isinstance(r, bool) and abs(int(r)) >= 2 ** 31:
            Flags.hit = Flags.hit or 'overflow'
        return r
    return fn(a, b)


def _instrumented(source: str) -> dict:
    import ast
    tree = _Instrument().visit(ast.parse(source))
    ast.fix_missing_locations(tree)
    ns: dict = {'__name__': 'prog', 'chk_': _chk}
    exec(compile(tree, '<prog-pass1>', 'exec'), ns)
    return ns


def run_python(source: str, entries, fields):
    """Returns {(name, k): encoding | '!exc' | ('skip', why)}."""
    ns: dict = {'__name__': 'prog'}
    exec(compile(source, '<prog>', 'exec'), ns)
    try:
        ns1 = _instrumented(source)
    except Exception:  # noqa  -- fall back to the operator tracking alone
        ns1 = None
    out = {}
    for e in entries:
        fn = ns[e.name]
        for k, vec in enumerate(e.vectors):
            args = [py_value(v, kind, ns) for v, (_, kind) in zip(vec, e.params)]
            # pass 1: tracking ints, to decide whether the call is inside the subset
            Flags.hit = None
            targs = [CInt(a) if isinstance(a, int) and not isinstance(a, bool) else ([CInt(x) if isinstance(x, int) and not isinstance(x, bool) else x for x in a] if isinstance(a, list) else a) for a in args]
            try:
                fn(*targs)
                if ns1 is not None and not Flags.hit:
                    ns1[e.name](*[py_value(v, kind, ns1) for v, (_, kind) in zip(vec, e.params)])
            except RecursionError:
                Flags.hit = 'recursion'
            except (ZeroDivisionError, OverflowError):
                Flags.hit = Flags.hit or 'zero-division'
            except ValueError as ex:
                if 'shift count' in str(ex):
                    Flags.hit = Flags.hit or 'shift-range'
            except Exception:  # noqa
                pass
            if Flags.hit:
                out[(e.name, k)] = ('skip', Flags.hit)
                continue
            args = [py_value(v, kind, ns) for v, (_, kind) in zip(vec, e.params)]
            try:
                out[(e.name, k)] = enc(fn(*args), fields)
            except Exception:  # noqa
                out[(e.name, k)] = '!exc'
    return out


def make_driver(entries, fields, header_name='mod.h', skip=None) -> str:
    skip = skip or set()
    lines = ['#include "prelude.h"', f'#include "{header_name}"', '#include "encode.h"']
    for cname, fs in (fields or {}).items():
        body = ' + "," + '.join(f'std::string("{f}=") + enc(o.{f})' for f in fs) if fs else 'std::string("")'
        lines.append(f'inline std::string enc(const {cname}& o) {{ return std::string("o{{") + {body} + "}}"; }}')
    lines.append('int main() {')
    for e in entries:
        if e.grid is not None and all(kind in ('int', 'bool') for _, kind in e.params):
            # nested loops over the value grid; k is the row-major index (same order as itertools.product)
            decl = []
            for i, ((pn, kind), vals) in enumerate(zip(e.params, e.grid)):
                ctype = 'int' if kind == 'int' else 'bool'
                decl.append(f'static const {ctype} G{i}[] = {{' + ', '.join(cpp_literal(v, kind) for v in vals) + '};')
            bitmap = ''.join('1' if (e.name, k) in skip else '0' for k in range(len(e.vectors)))
            lines.append('\t{ ' + ' '.join(decl) + f' static const char SKIP[] = "{bitmap}"; int k = 0;')
            loops = ''.join(f'for (int i{i} = 0; i{i} < {len(vals)}; i{i}++) ' for i, vals in enumerate(e.grid))
            args = ', '.join(f'G{i}[i{i}]' for i in range(len(e.params)))
            lines.append(f'\t{loops}{{ if (SKIP[k] == 48) {{ try {{ auto r = {e.name}({args}); std::cout << "{e.name}#" << k << "=" << enc(r) << "\\n"; }} catch (...) {{ std::cout << "{e.name}#" << k << "=!exc\\n"; }} }} k++; }} }}')
            continue
        for k, vec in enumerate(e.vectors):
            if (e.name, k) in skip:
                continue
            args = ', '.join(cpp_literal(v, kind) for v, (_, kind) in zip(vec, e.params))
            lines.append(f'\ttry {{ auto r = {e.name}({args}); std::cout << "{e.name}#{k}=" << enc(r) << "\\n"; }} catch (...) {{ std::cout << "{e.name}#{k}=!exc\\n"; }}')
    lines.append('\treturn 0;\n}')
    return '\n'.join(lines) + '\n'


def ensure_pch(workdir: str) -> None:
    """Copy the headers into the work dir (once) and precompile the prelude."""
    if os.path.exists(os.path.join(workdir, 'prelude.h.gch')):
        return
    for h in ('prelude.h', 'encode.h'):
        shutil.copy(os.path.join(CPP_DIR, h), os.path.join(workdir, h))
    subprocess.run([GXX, *CXXFLAGS, '-x', 'c++-header', os.path.join(workdir, 'prelude.h'), '-o', os.path.join(workdir, 'prelude.h.gch')], check=True, capture_output=True)


FUNC_MARK = re.compile(r'^/\*\* (\w+) \*/$')


def function_ranges(header_text: str):
    """[(first line, last line, name)] of top-level definitions in tranp output (they start with '/** name */' at column 0)."""
    lines = header_text.split('\n')
    starts = [(i + 1, FUNC_MARK.match(l).group(1)) for i, l in enumerate(lines) if FUNC_MARK.match(l)]
    out = []
    for j, (ln, name) in enumerate(starts):
        end = starts[j + 1][0] - 1 if j + 1 < len(starts) else len(lines)
        out.append((ln, end, name))
    return out


def compile_and_run(workdir: str, stem: str, header_text: str, driver_text: str, timeout=120):
    """Returns ('ok', {key: value}) | ('compile-error', stderr, [failing top-level names]) | ('run-error', detail)."""
    ensure_pch(workdir)
    hp = os.path.join(workdir, f'{stem}.h')
    cp = os.path.join(workdir, f'{stem}.cpp')
    xp = os.path.join(workdir, f'{stem}.bin')
    with open(hp, 'w') as f:
        f.write(header_text)
    with open(cp, 'w') as f:
        f.write(driver_text)
    try:
        r = subprocess.run([GXX, *CXXFLAGS, '-I', workdir, cp, '-o', xp], capture_output=True, text=True, timeout=timeout)
        if r.returncode != 0:
            bad = set()
            ranges = function_ranges(header_text)
            # every mention of the emitted header (errors and 'required from here' notes of template instantiations)
            for m in re.finditer(re.escape(f'{stem}.h') + r':(\d+):\d+:', r.stderr):
                ln = int(m.group(1))
                for a, b, name in ranges:
                    if a <= ln <= b:
                        bad.add(name)
            # errors located in the driver (e.g. a call that does not match the emitted signature)
            for m in re.finditer(re.escape(f'{stem}.cpp') + r':(\d+):\d+: error', r.stderr):
                dl = driver_text.split('\n')[int(m.group(1)) - 1]
                mm = re.search(r'auto r = (\w+)\(', dl)
                if mm:
                    bad.add(mm.group(1))
            return ('compile-error', r.stderr, sorted(bad))
        r2 = subprocess.run([xp], capture_output=True, text=True, timeout=timeout)
        if r2.returncode != 0:
            return ('run-error', f'exit {r2.returncode}: {r2.stderr[-500:]}', r2.stdout)
        out = {}
        for line in r2.stdout.split('\n'):
            if '=' in line:
                key, _, val = line.partition('=')
                name, _, k = key.partition('#')
                out[(name, int(k))] = val
        return ('ok', out)
    except subprocess.TimeoutExpired:
        return ('run-error', 'timeout', '')
    finally:
        for p in (hp, cp, xp):
            try:
                os.remove(p)
            except OSError:
                pass


def first_error_for(stderr: str, stem: str, header_text: str, name: str) -> str:
    """The first g++ diagnostic that lies inside the definition `name`."""
    ranges = {n: (a, b) for a, b, n in function_ranges(header_text)}
    if name not in ranges:
        m = re.search(r'error: (.*)', stderr)
        return m.group(1)[:200] if m else stderr[:200]
    a, b = ranges[name]
    for m in re.finditer(re.escape(f'{stem}.h') + r':(\d+):\d+: error: (.*)', stderr):
        if a <= int(m.group(1)) <= b:
            return m.group(2)[:200]
    # error reported inside a library header, instantiated from this definition: take the first error of that group
    for m in re.finditer(re.escape(f'{stem}.h') + r':(\d+):\d+:\s+required from', stderr):
        if a <= int(m.group(1)) <= b:
            tail = stderr[m.end():]
            mm = re.search(r'error: (.*)', tail)
            if mm:
                return 'in instantiation: ' + mm.group(1)[:160]
    return ''


def error_class(msg: str) -> str:
    """Coarse class of a g++ diagnostic (identifier-free) for finding signatures."""
    msg = re.sub(r"‘[^’]*’", '‘…’', msg)
    msg = re.sub(r'\d+', 'N', msg)
    return msg[:80]


def stem_for(text: str) -> str:
    return 'm' + hashlib.sha1(text.encode()).hexdigest()[:10]
