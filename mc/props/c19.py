"""C19 -- the dependency container follows its simple reference model.

Engine E1: explicit-state BFS over operation histories on the real rogw.tranp.lang.di.{DI, LazyDI}.
State   = (private dicts of every container in the universe) + (reference model state), canonicalised by
          renumbering instance serials in order of first appearance (exact up to that bijection).
Oracle  = after every transition: returned value / exception class equals the model's; the abstraction of
          every container's private state equals the model's container (so operands of combine are checked
          for the frame condition, and the combined container is judged at once); can_resolve agrees for
          every symbol of every container.
"""
from __future__ import annotations

import copy
import itertools
import json
import time
from collections import deque

from mc.core import pool

ID = 'C19'
LEVEL = 'model_checking'

SYMS = ['A', 'B', 'G']                       # canonical symbol names (G[int], G[str] normalise to G)
SYM_ALIASES = {'A': 'A', 'B': 'B', 'G': 'G', 'G[int]': 'G', 'G[str]': 'G'}
MAX_CONTAINERS = 3


# ----------------------------------------------------------------------------- reference model

class Unspecified(Exception):
    """The property does not define this behaviour (e.g. cyclic factories): transition not explored."""


class Model:
    def __init__(self):
        self.containers: list[dict] = []
        self.serial = 0

    def new_inst(self, maker, deps):
        self.serial += 1
        return (maker, self.serial, tuple(deps))

    def new_container(self, defs: dict, lazy: bool = True):
        self.containers.append({s: {'f': f, 'inst': None, 'lazy': lazy} for s, f in defs.items()})

    def bind(self, c, s, f):
        cont = self.containers[c]
        if s in cont:
            if cont[s]['lazy'] and cont[s]['inst'] is None:
                raise Unspecified('bind over a lazily registered, not yet materialised symbol')
            raise ValueError('already defined')
        cont[s] = {'f': f, 'inst': None, 'lazy': False}

    def unbind(self, c, s):
        self.containers[c].pop(s, None)

    def rebind(self, c, s, f):
        self.containers[c].pop(s, None)
        self.containers[c][s] = {'f': f, 'inst': None, 'lazy': False}

    def resolve(self, c, s, stack=()):
        cont = self.containers[c]
        if s not in cont:
            raise ValueError('unresolved')
        rec = cont[s]
        if rec['inst'] is None:
            if s in stack:
                raise Unspecified('cyclic factories')
            rec['inst'] = self.invoke(c, rec['f'], (), stack + (s,))
            rec['lazy'] = False
        return rec['inst']

    def invoke(self, c, f, remains, stack=()):
        from mc.props.c19_universe import PARAMS
        params = PARAMS[f]
        cont = self.containers[c]
        curried = []
        for p in params:
            if p not in cont:
                break
            curried.append(self.resolve(c, p, stack))
        expected = params[len(curried):]
        if len(expected) != len(remains):
            raise ValueError('mismatch (arity)')
        for e, r in zip(expected, remains):
            if not _arg_is(r, e):
                raise ValueError('mismatch (type)')
        return self.new_inst(f, curried + list(remains))

    def combine(self, i, j):
        left, right = self.containers[i], self.containers[j]
        new = {}
        for s in list(left.keys()) + [k for k in right.keys() if k not in left]:
            new[s] = dict(right[s] if s in right else left[s])
        self.containers.append(new)


def _arg_is(r, e) -> bool:
    if e == 'int':
        return isinstance(r, int) and not isinstance(r, bool)
    return isinstance(r, tuple) and len(r) == 3 and r[0] == f'arg{e}'


# ----------------------------------------------------------------------------- implementation side

def _priv(obj, cls, name):
    return getattr(obj, f'_{cls}__{name}')


def _fname(f) -> str:
    from mc.props import c19_universe as U
    if isinstance(f, str):
        return f.split('.')[-1]
    for k, v in U.FACTORIES.items():
        if v is f:
            return k
    return repr(f)


def _sname(sym) -> str:
    """Canonical universe name of a symbol object or of a registered symbol path (identity, never the simple name)."""
    from mc.props import c19_universe as U
    for name, cls in U.SYMBOLS.items():
        if sym is cls or (isinstance(sym, str) and sym == f'{cls.__module__}.{cls.__qualname__}'):
            return name
    return getattr(sym, '__name__', repr(sym))


def impl_desc(x):
    from mc.props import c19_universe as U
    if isinstance(x, U.Inst):
        return (x.maker, x.serial, tuple(impl_desc(d) for d in x.deps))
    return x


class Impl:
    def __init__(self, kind: str):
        from rogw.tranp.lang.di import DI, LazyDI
        self.kind = kind
        self.cls = LazyDI if kind == 'lazy' else DI
        self.containers: list = []
        self.shared_defs: dict = {}

    def new_container(self, defs: dict):
        from mc.props import c19_universe as U
        if self.kind == 'lazy':
            # a program keeps one definitions table per configuration and instantiates every container of that configuration
            # from the same dict object: containers built from equal definitions share the argument, never their state
            key = json.dumps(sorted((s, list(v)) for s, v in defs.items()))
            if key not in self.shared_defs:
                d = {}
                for s, (how, f) in defs.items():
                    cls = U.SYMBOLS[s]   # registered under module + qualified name (nested classes: 'OuterA.Item')
                    d[f'{cls.__module__}.{cls.__qualname__}'] = f'{U.PATH}.{f}' if how == 'path' else U.FACTORIES[f]
                self.shared_defs[key] = (d, dict(d))
            self.containers.append(self.cls.instantiate(self.shared_defs[key][0]))
        else:
            di = self.cls()
            for s, (how, f) in defs.items():
                di.bind(U.SYMBOLS[s], U.FACTORIES[f])
            self.containers.append(di)

    def alpha(self, c: int) -> dict:
        """Abstraction of the private state: symbol -> (effective factory, materialised instance)."""
        di = self.containers[c]
        injectors = _priv(di, 'DI', 'injectors')
        instances = _priv(di, 'DI', 'instances')
        out = {}
        for sym, f in injectors.items():
            out[_sname(sym)] = {'f': _fname(f), 'inst': impl_desc(instances[sym]) if sym in instances else None}
        for sym, inst in instances.items():
            if _sname(sym) not in out:
                out[_sname(sym)] = {'f': None, 'inst': impl_desc(inst)}
        if self.kind == 'lazy':
            for path, f in _priv(di, 'LazyDI', 'definitions').items():
                s = _sname(path)
                if s not in out:
                    out[s] = {'f': _fname(f), 'inst': None}
        return out

    def raw_state(self, c: int):
        di = self.containers[c]
        injectors = _priv(di, 'DI', 'injectors')
        instances = _priv(di, 'DI', 'instances')
        invocations = _priv(di, 'DI', 'invocations')
        st = {
            'inj': sorted((_sname(s), _fname(f)) for s, f in injectors.items()),
            'ins': sorted((_sname(s), impl_desc(i)) for s, i in instances.items()),
            'inv': sorted((k if isinstance(k, str) else _fname(k), tuple(sorted((p, _sname(t)) for p, t in v.items()))) for k, v in invocations.items()),
        }
        if self.kind == 'lazy':
            st['def'] = sorted((_sname(p), _fname(f)) for p, f in _priv(di, 'LazyDI', 'definitions').items())
        return st


# ----------------------------------------------------------------------------- alphabet

BIND_CHOICES = {'A': ['mkA1', 'mkA2', 'callobj'], 'B': ['mkB', 'B2'], 'G[int]': ['mkGa']}
INVOKES = [
    ('mkB', ()), ('mkB', ('argA',)), ('mkB', ('argA', 1)),
    ('mkBn', (1,)), ('mkBn', ('argA', 1)), ('mkBn', ()), ('mkBn', ('x',)),
    ('closure_a', ()), ('closure_a', ('argA',)), ('closure_n', (1,)), ('closure_n', ()),
    ('B2', (1,)),
    ('mkNA', (1, 'argA')), ('mkNA', (1,)),
]
NEW_DEFS = [
    {'A': ('path', 'mkA1')},   # (equal to the second initial registration: a second container from the same table)
    {'A': ('path', 'mkA2')},
    {'B': ('path', 'mkB')},
    {'A': ('call', 'mkA1'), 'B': ('path', 'mkB')},
]
INITIAL_DEFS = [
    {},
    {'A': ('path', 'mkA1')},
    {'A': ('path', 'mkA1'), 'B': ('call', 'mkB')},
]


def alphabet(n_containers: int, small: bool):
    ops = []
    for c in range(n_containers):
        for s, fs in BIND_CHOICES.items():
            for f in fs:
                ops.append(('bind', c, s, f))
                ops.append(('rebind', c, s, f))
        for s in ['A', 'B', 'G[str]']:
            ops.append(('unbind', c, s))
        for s in ['A', 'B', 'G[int]', 'G[str]', 'G']:
            ops.append(('resolve', c, s))
        for f, args in INVOKES:
            ops.append(('invoke', c, f, args))
    if n_containers < MAX_CONTAINERS:
        for k in range(len(NEW_DEFS)):
            ops.append(('new', k))
        for i in range(n_containers):
            for j in range(n_containers):
                ops.append(('combine', i, j))
    return ops


# ----------------------------------------------------------------------------- execution of a history

class Divergence(Exception):
    def __init__(self, signature, what):
        self.signature = signature
        self.what = what


def _kind(obs, before_serial):
    if obs[0] == 'exc':
        return obs[1]
    if obs[0] == 'inst':
        d = obs[1]
        return f'inst:{d[0]}:' + ('new' if d[1] > before_serial else 'old')
    return str(obs[0])


def _ctx_forms(impl: Impl, cs, syms):
    """Forms of the given symbols in the given containers (private state): D=defined lazily, J=injector, I=instance."""
    out = []
    for c in cs:
        raw = impl.raw_state(c)
        parts = []
        for s in syms:
            form = ('D' if any(k == s for k, _ in raw.get('def', [])) else '-') + ('J' if any(k == s for k, _ in raw['inj']) else '-') + ('I' if any(k == s for k, _ in raw['ins']) else '-')
            parts.append(f'{s}:{form}')
        out.append(' '.join(parts))
    return ' | '.join(out)


def apply_op(impl: Impl, model: Model, op, check: bool):
    """Apply one operation to model then implementation. Raises Unspecified (skip) or Divergence."""
    from mc.props import c19_universe as U
    name = op[0]
    before = model.serial
    assert before == U._serial[0], 'serial counters out of step before the operation'
    # argument objects are created by the harness, identically counted on both sides
    m_args = i_args = ()
    if name == 'invoke':
        m_list, i_list = [], []
        for a in op[3]:
            if a == 'argA':
                i_obj = U.A('argA')
                m_list.append(model.new_inst('argA', ()))
                i_list.append(i_obj)
            else:
                m_list.append(a)
                i_list.append(a)
        m_args, i_args = tuple(m_list), tuple(i_list)
    before_args = model.serial

    pre_ctx = None
    if check:
        rel_syms = SYMS
        cs = [op[1], op[2]] if name == 'combine' else ([op[1]] if name != 'new' else [])
        pre_ctx = _ctx_forms(impl, cs, rel_syms)

    # --- model
    trial = copy.deepcopy(model)
    try:
        if name == 'new':
            trial.new_container({s: f for s, (_, f) in NEW_DEFS[op[1]].items()}, impl.kind == 'lazy')
            m_obs = ('ok',)
        elif name == 'bind':
            trial.bind(op[1], SYM_ALIASES[op[2]], op[3])
            m_obs = ('ok',)
        elif name == 'rebind':
            trial.rebind(op[1], SYM_ALIASES[op[2]], op[3])
            m_obs = ('ok',)
        elif name == 'unbind':
            trial.unbind(op[1], SYM_ALIASES[op[2]])
            m_obs = ('ok',)
        elif name == 'resolve':
            m_obs = ('inst', trial.resolve(op[1], SYM_ALIASES[op[2]]))
        elif name == 'invoke':
            m_obs = ('inst', trial.invoke(op[1], op[2], m_args))
        elif name == 'combine':
            trial.combine(op[1], op[2])
            m_obs = ('ok',)
        else:
            raise AssertionError(op)
    except ValueError:
        m_obs = ('exc', 'ValueError')
    # Unspecified propagates before the implementation is touched
    model.__dict__.update(trial.__dict__)

    # --- implementation
    try:
        if name == 'new':
            impl.new_container(NEW_DEFS[op[1]])
            i_obs = ('ok',)
        elif name in ('bind', 'rebind'):
            getattr(impl.containers[op[1]], name)(U.SYMBOLS[op[2]], U.FACTORIES[op[3]])
            i_obs = ('ok',)
        elif name == 'unbind':
            impl.containers[op[1]].unbind(U.SYMBOLS[op[2]])
            i_obs = ('ok',)
        elif name == 'resolve':
            i_obs = ('inst', impl_desc(impl.containers[op[1]].resolve(U.SYMBOLS[op[2]])))
        elif name == 'invoke':
            i_obs = ('inst', impl_desc(impl.containers[op[1]].invoke(U.FACTORIES[op[2]], *i_args)))
        elif name == 'combine':
            impl.containers.append(impl.containers[op[1]].combine(impl.containers[op[2]]))
            i_obs = ('ok',)
    except RecursionError:
        raise
    except Exception as e:  # noqa
        i_obs = ('exc', type(e).__name__)

    for d, pristine in impl.shared_defs.values():
        if d != pristine:
            raise Divergence(['definitions-argument-mutated'] + [name], f'{op}: the dict handed to instantiate() was changed by the container: {sorted(map(str, d))} (was {sorted(map(str, pristine))})')
    if not check:
        return
    opsig = [name] + [json.dumps(x) if not isinstance(x, str) else x for x in op[1:]][(1 if name not in ('new', 'combine') else 0):]
    if name == 'combine':
        opsig = ['combine', 'same' if op[1] == op[2] else 'distinct']
    if m_obs != i_obs:
        mk, ik = _kind(m_obs, before_args), _kind(i_obs, before_args)
        raise Divergence(['return'] + opsig + [f'expected={mk}', f'actual={ik}'],
                         f'{op}: reference model returns {m_obs}, implementation returns {i_obs} [forms before: {pre_ctx}]')
    # serial counters must agree (same number of factory calls)
    if model.serial != U._serial[0]:
        raise Divergence(['factory-calls'] + opsig, f'{op}: model created {model.serial - before} instances, implementation {U._serial[0] - before}')
    # state abstraction + can_resolve, every container (frame condition included)
    for c in range(len(impl.containers)):
        a = impl.alpha(c)
        mc_ = {s: {'f': r['f'], 'inst': r['inst']} for s, r in model.containers[c].items()}
        role = 'self'
        if name == 'combine':
            role = 'result' if c == len(impl.containers) - 1 else ('left' if c == op[1] else 'right' if c == op[2] else 'other')
        elif name != 'new' and c != op[1]:
            role = 'other'
        for s in SYMS:
            if a.get(s) != mc_.get(s):
                def rk(r):
                    if r is None:
                        return 'absent'
                    return f"f={r['f']},inst=" + ('none' if r['inst'] is None else ('new' if r['inst'][1] > before_args else 'old') + f"({r['inst'][0]})")
                raise Divergence(['state'] + opsig + [f'container={role}', f'symbol={s}', f'expected={rk(mc_.get(s))}', f'actual={rk(a.get(s))}'],
                                 f'{op}: container #{c} ({role}) symbol {s}: model {mc_.get(s)}, implementation {a.get(s)} [forms before: {pre_ctx}]')
        for sn, sym in U.SYMBOLS.items():
            want = SYM_ALIASES[sn] in model.containers[c]
            try:
                got = impl.containers[c].can_resolve(sym)
            except Exception as e:  # noqa
                got = type(e).__name__
            if got != want:
                raise Divergence(['can_resolve'] + opsig + [f'container={role}', f'symbol={sn}', f'expected={want}', f'actual={got}'],
                                 f'{op}: container #{c} can_resolve({sn}) = {got}, model says {want} [forms before: {pre_ctx}]')


def build(kind: str, init: int, hist, check_last: bool):
    """Fresh universe, replay hist. Returns (impl, model). Only the last op is judged (prefix was judged earlier)."""
    from mc.props import c19_universe as U
    U.reset()
    impl, model = Impl(kind), Model()
    impl.new_container(INITIAL_DEFS[init])
    model.new_container({s: f for s, (_, f) in INITIAL_DEFS[init].items()}, kind == 'lazy')
    for k, op in enumerate(hist):
        apply_op(impl, model, op, check=check_last and k == len(hist) - 1)
    return impl, model


def canon(impl: Impl, model: Model):
    raw = [impl.raw_state(c) for c in range(len(impl.containers))]
    mod = [sorted((s, r['f'], r['inst'], r['lazy']) for s, r in cont.items()) for cont in model.containers]
    text = json.dumps([raw, mod], sort_keys=True)
    # renumber serials in order of first appearance: instance descs are ["maker", serial, [...]]
    import re
    mapping: dict[str, str] = {}

    def sub(m):
        k = m.group(2)
        if k not in mapping:
            mapping[k] = str(len(mapping) + 1)
        return f'{m.group(1)}{mapping[k]},'
    return re.sub(r'(\["[A-Za-z0-9_]+", )(\d+),', sub, text)


# ----------------------------------------------------------------------------- BFS

def _expand(task):
    kind, init, hist = task
    out = []   # (op, status, payload)
    impl, _ = build(kind, init, hist, False)
    n = len(impl.containers)
    for op in alphabet(n, False):
        h2 = hist + [op]
        try:
            impl2, model2 = build(kind, init, h2, True)
        except Unspecified:
            out.append((op, 'skip', None))
            continue
        except RecursionError:
            out.append((op, 'skip', None))
            continue
        except Divergence as d:
            out.append((op, 'viol', (d.signature, d.what)))
            continue
        out.append((op, 'ok', canon(impl2, model2)))
    return out


def explore(ctx, kind: str, init: int, depth: int, stats: dict, samples: list):
    seen = set()
    impl, model = build(kind, init, [], False)
    seen.add(canon(impl, model))
    frontier = [[]]
    d = 0
    fix = False
    while frontier and d < depth:
        tasks = [(kind, init, h) for h in frontier]
        results = pool.pmap(_expand, tasks, workers=ctx.workers if len(tasks) > 32 else 1, rotate=ctx.seed)
        nxt = []
        for h, res in zip(frontier, results):
            for op, status, payload in res:
                stats['transitions'] += 1
                if status == 'skip':
                    stats['unspecified_skipped'] += 1
                elif status == 'viol':
                    stats['violating_transitions'] += 1
                    sig, what = payload
                    ctx.violation(sig, what, {'kind': kind, 'init': init, 'history': h + [op]})
                else:
                    if payload not in seen:
                        seen.add(payload)
                        nxt.append(h + [op])
                        if len(samples) < 6 and len(h) + 1 >= 3 and (len(seen) % 97 == 0):
                            samples.append({'universe': kind, 'initial_defs': init, 'history': h + [op]})
        frontier = nxt
        d += 1
        ctx.log(f'{kind}/init{init}: depth {d} states={len(seen)} frontier={len(frontier)}')
    if not frontier:
        fix = True
    stats['states'] += len(seen)
    stats['max_depth'] = max(stats['max_depth'], d)
    stats['fixpoint'] = stats.get('fixpoint', True) and fix
    return len(seen)


def run(ctx):
    depth = int(__import__('os').environ.get('C19_DEPTH', 4 if ctx.quick else 5))
    stats = {'states': 0, 'transitions': 0, 'unspecified_skipped': 0, 'violating_transitions': 0, 'max_depth': 0}
    samples: list = []
    per = {}
    for kind in ['lazy', 'plain']:
        for init in range(len(INITIAL_DEFS)):
            per[f'{kind}/init{init}'] = explore(ctx, kind, init, depth, stats, samples)
    # determinism self-test: one history replayed twice must give identical canonical state
    h = samples[0]['history'] if samples else []
    k = samples[0]['universe'] if samples else 'lazy'
    i0 = samples[0]['initial_defs'] if samples else 0
    c1 = canon(*build(k, i0, h, False))
    c2 = canon(*build(k, i0, h, False))
    if c1 != c2:
        from mc.core.runner import HarnessError
        raise HarnessError('replay of one history gave two different states')
    return {
        'states': stats['states'],
        'transitions': stats['transitions'],
        'traces_validated_against_impl': stats['transitions'] - stats['unspecified_skipped'],
        'samples': samples or [{'history': []}],
        'max_depth': stats['max_depth'],
        'bound': f'all operation histories of length <= {depth} (BFS with exact state deduplication), 2 universes x {len(INITIAL_DEFS)} initial registrations, <= {MAX_CONTAINERS} containers',
        'fixpoint': stats['fixpoint'],
        'exhaustive': True,
        'unspecified_skipped': stats['unspecified_skipped'],
        'violating_transitions': stats['violating_transitions'],
        'distinct_violation_signatures': len(ctx.violations),
        'states_per_universe': per,
        'alphabet_size_per_state': {'1 container': len(alphabet(1, False)), '2 containers': len(alphabet(2, False)), '3 containers': len(alphabet(3, False))},
        'explanation': 'every transition executes the real DI/LazyDI method; the reference model is a dict per container; transitions that diverge are reported and not expanded',
    }


def replay(ctx, data):
    try:
        build(data['kind'], data['init'], [tuple(tuple(x) if isinstance(x, list) else x for x in op) for op in data['history']], True)
    except Divergence as d:
        ctx.violation(d.signature, d.what, data)
    except Unspecified:
        pass
