"""C16 -- a node's source span covers exactly the node's own text.

Engine E2 over the same tree corpus as C15 (fresh and restored from the stored form). For every entry:
  (a) the span is token aligned (CPython's tokenizer on the whole source is the reference),
  (b) the leaf tokens lying inside the span are exactly the leaves of the entry's subtree,
  (c) a child's span lies inside its parent's, (d) the slice has no leading/trailing blanks,
  (e) entries without text report (0,0)-(0,0),
and for on-disk modules the line and caret range printed by ErrorRender for a node address the slice's first line.
"""
import io
import json
import os
import re
import tokenize

from mc.core import pool
from mc.gen import corpus

ID = 'C16'
LEVEL = 'exploration'

_state = {}


def _init_worker():
    from mc.tranp.session import Session
    from rogw.tranp.syntax.ast.parser import SyntaxParser
    s = Session({'__main__': 'a = 1\n'})
    _state['lark'] = s.get(SyntaxParser).dirty_get_origin()


def line_starts(text):
    st = [0]
    for ln in text.split('\n')[:-1]:
        st.append(st[-1] + len(ln) + 1)
    return st


def token_bounds(text):
    """Sets of start and end offsets of CPython tokens (comments/NL excluded as tokens but kept as boundaries-free)."""
    starts, ends = set(), set()
    ls = line_starts(text)
    try:
        for t in tokenize.generate_tokens(io.StringIO(text).readline):
            name = tokenize.tok_name[t.type]
            if name in ('NL', 'NEWLINE', 'INDENT', 'DEDENT', 'ENDMARKER', 'COMMENT'):
                continue
            if name.startswith('FSTRING'):
                return None
            starts.add(ls[t.start[0] - 1] + t.start[1])
            ends.add(ls[t.end[0] - 1] + t.end[1])
    except (tokenize.TokenError, IndentationError, SyntaxError):
        return None
    return starts, ends


def leaves_of(entry, path, out):
    """(offset-less) leaf tokens with their positions: list of (begin_line, begin_col, value, path)."""
    if entry.is_terminal and not entry.is_empty:
        sm = entry.source_map
        out.append((sm['begin'], sm['end'], entry.value, path))
    for i, c in enumerate(entry.children):
        leaves_of(c, f'{path}.{c.name}[{i}]', out)
    return out


def spans_of(root):
    out = {}

    def rec(e, path):
        sm = e.source_map
        out[path] = (tuple(sm['begin']), tuple(sm['end']))
        for i, c in enumerate(e.children):
            rec(c, f'{path}.{c.name}[{i}]')
    rec(root, root.name)
    return out


def check_tree(text, root, label, fresh_spans=None):
    """Yield violations for one tree (root: Entry). fresh_spans: spans of the freshly parsed tree of the same text
    (already judged): a restored entry must report the same span."""
    ls = line_starts(text)
    n_lines = len(ls)
    all_leaves = leaves_of(root, root.name, [])
    viol = []
    seen = set()

    def off(pos):
        line, col = pos
        if line is None or col is None or line < 1 or line > n_lines:
            return None
        return ls[line - 1] + col - 1

    def add(sig, what):
        if tuple(sig) not in seen:
            seen.add(tuple(sig))
            viol.append((sig, what, {'src': text, 'variant': label}))

    def rec(e, path, parent_span):
        tag = re.sub(r'\[\d+\]', '', path.split('.')[-1])
        sm0 = e.source_map
        if None in tuple(sm0['begin']) + tuple(sm0['end']):
            add([label, 'span-undefined', tag], f'{path}: span {sm0} has no line / column')
            return
        sm = e.source_map
        b, en = tuple(sm['begin']), tuple(sm['end'])
        sub = leaves_of(e, path, [])
        if (b, en) == ((0, 0), (0, 0)):
            if sub:
                add([label, 'no-span-but-has-tokens', tag], f'{text!r} {path}: reports (0,0)-(0,0) but contains tokens {[s[2] for s in sub][:4]}')
            elif not e.is_empty and not e.is_terminal and fresh_spans is not None and fresh_spans.get(path, (b, en)) != (b, en):
                add([label, 'span-lost', tag], f'{text!r} {path}: reports (0,0)-(0,0); the freshly parsed tree has {fresh_spans[path]} for it')
            span = parent_span
        else:
            ob, oe = off(b), off(en)
            if ob is None or oe is None or ob > oe or oe > len(text):
                add([label, 'span-out-of-range', tag], f'{text!r} {path}: span {b}-{en} outside the source')
                return
            sl = text[ob:oe]
            if fresh_spans is not None and fresh_spans.get(path, (b, en)) != (b, en):
                add([label, 'span-differs-from-fresh', tag], f'{text!r} {path}: span {b}-{en}, freshly parsed {fresh_spans[path]}')
            if not e.is_terminal and not sub and not sl.strip():
                add([label, 'childless-rule-without-text', tag], f'{text!r} {path}: span {b}-{en} addresses only blanks {sl!r}')
            if e.is_terminal:
                if sl != e.value:
                    add([label, 'token-span-text', e.name], f'{text!r} {path}: token {e.value!r} span addresses {sl!r}')
            else:
                # layout tokens (_NEWLINE/_INDENT/_DEDENT) are part of lark's rule spans: judge the slice without edge blanks
                lead = len(sl) - len(sl.lstrip())
                tb, te = ob + lead, ob + len(sl.rstrip())
                if te > tb:
                    word = lambda ch: ch.isalnum() or ch == '_'
                    if (tb > 0 and word(text[tb - 1]) and word(text[tb])) or (te < len(text) and word(text[te - 1]) and word(text[te])):
                        add([label, 'cuts-a-word', tag], f'{text!r} {path}: slice {text[tb:te]!r} [{tb}:{te}] begins or ends inside a word')
                # (b) leaves inside the span == leaves of the subtree
                inside = [lv for lv in all_leaves if off(lv[0]) is not None and ob <= off(lv[0]) and off(lv[1]) <= oe]
                if [x[3] for x in inside] != [x[3] for x in sub]:
                    extra = [x[2] for x in inside if x[3] not in {s[3] for s in sub}]
                    missing = [x[2] for x in sub if x[3] not in {s[3] for s in inside}]
                    add([label, 'foreign-tokens-in-span' if extra else 'own-tokens-outside-span', tag], f'{text!r} {path}: slice {sl!r}; foreign {extra[:4]} missing {missing[:4]}')
            if parent_span is not None:
                pb, pe = parent_span
                if ob < pb or oe > pe:
                    add([label, 'child-outside-parent', tag], f'{text!r} {path}: [{ob}:{oe}] not inside parent [{pb}:{pe}]')
            span = (ob, oe)
        for i, c in enumerate(e.children):
            rec(c, f'{path}.{c.name}[{i}]', span)

    rec(root, root.name, None)
    return viol


def tree_check(text):
    from rogw.tranp.implements.syntax.lark.entry import EntryOfLark, Serialization
    src = text if text.endswith(('\n', '\n\t', '\n\t\t', '\n    ')) else text + '\n'   # (a blank-only last line without newline is kept)
    try:
        tree = _state['lark'].parse(src)
    except Exception:  # noqa
        return None, 0
    viol = check_tree(src, EntryOfLark(tree), 'fresh')
    restored = Serialization.loads(json.loads(json.dumps(Serialization.dumps(tree))))
    viol += check_tree(src, EntryOfLark(restored), 'restored', spans_of(EntryOfLark(tree)))
    return viol, 1


def worker(batch):
    return [tree_check(t) for t in batch]


def render_check(task):
    """On-disk module: ErrorRender quotation for every node with a span."""
    from mc.tranp.session import Session, ensure_workdir
    from rogw.tranp.errors import Errors
    from rogw.tranp.view.error_render import ErrorRender
    from rogw.tranp.syntax.ast.entrypoints import Entrypoints
    from rogw.tranp.syntax.ast.finder import ASTFinder
    idx, text = task
    wd = ensure_workdir()
    pkg = f'c16w{os.getpid()}'
    os.makedirs(os.path.join(wd, pkg), exist_ok=True)
    mod = f'{pkg}.m{idx}'
    fp = os.path.join(wd, pkg, f'm{idx}.py')
    src = text if text.endswith(('\n', '\n\t', '\n\t\t', '\n    ')) else text + '\n'
    with open(fp, 'w', newline='') as f:
        f.write(src)
    viol, n = [], 0
    seen = set()
    disk_spans = None
    try:
        src0 = src
        for variant in ('fresh', 'restored', 'edited'):   # second session restores the tree from the cache written by the first
            if variant == 'edited':
                # the file is saved again with other text (two comment lines in front, every span moves) and a later mtime;
                # the next session of this process must report the spans of the text that is in the file now
                src = '# edited\n#\n' + src0
                with open(fp, 'w', newline='') as f:
                    f.write(src)
                st = os.stat(fp)
                os.utime(fp, (st.st_mtime + 10, st.st_mtime + 10))
            s = Session({}, cache=True)
            ep = s.get(Entrypoints).load(mod)
            nodes = ep._Node__nodes
            root = nodes._Nodes__entries.by('file_input')
            # (the quoted line is the text of the line without its line terminator, CRLF included)
            lines = [ln[:-1] if ln.endswith('\r') else ln for ln in src.split('\n')]
            # the tree the application built from the file (default source provider, cache): same span rules
            for sig, what, rep in check_tree(src, root, f'{variant}-on-disk', disk_spans if variant == 'restored' else None):
                if tuple(sig) not in seen:
                    seen.add(tuple(sig))
                    viol.append((sig, what, {'src': text}))
            if variant == 'fresh':
                disk_spans = spans_of(root)
            for path in ASTFinder().full_pathfy(root).keys():
                node = nodes.by(path)
                sm = node.source_map
                if tuple(sm['begin']) == (0, 0):
                    # an entry without text has no line to quote: the report must not print one
                    try:
                        try:
                            raise Errors.Logic(node)
                        except Errors.Logic as err:
                            out0 = str(ErrorRender(err))
                        if 'via Node:' in out0:
                            sig = [variant, 'quotation-for-node-without-position']
                            if tuple(sig) not in seen:
                                seen.add(tuple(sig))
                                viol.append((sig, f'{mod} {path}: the node has no position (0,0)-(0,0) but the report quotes {out0[out0.index("via Node:"):][:90]!r}', {'src': text}))
                    except Exception as e:  # noqa
                        sig = [variant, 'render-raises', type(e).__name__]
                        if tuple(sig) not in seen:
                            seen.add(tuple(sig))
                            viol.append((sig, f'{mod} {path}: ErrorRender raised {type(e).__name__}: {e}', {'src': text}))
                    continue
                n += 1
                try:
                    try:
                        raise Errors.Logic(node)
                    except Errors.Logic as err:
                        out = str(ErrorRender(err))
                except Exception as e:  # noqa
                    sig = [variant, 'render-raises', type(e).__name__]
                    if tuple(sig) not in seen:
                        seen.add(tuple(sig))
                        viol.append((sig, f'{mod} {path}: ErrorRender raised {type(e).__name__}: {e}', {'src': text}))
                    continue
                m = re.search(r'via Node:\n  (\S+):(\d+)\n    >>> (.*)\n        ( *)(\^+)', out)
                tag = re.sub(r'\[\d+\]', '', path.split('.')[-1])
                if not m:
                    sig = [variant, 'no-quotation', tag]
                    if tuple(sig) not in seen:
                        seen.add(tuple(sig))
                        viol.append((sig, f'{mod} {path}: no quotation in {out[-200:]!r}', {'src': text}))
                    continue
                line_no, quoted, ind, carets = int(m.group(2)), m.group(3), len(m.group(4)), len(m.group(5))
                (bl, bc), (el, ec) = sm['begin'], sm['end']
                want_line = lines[bl - 1].replace('\t', ' ')
                want_begin = bc - 1
                want_len = max(1, (ec - bc) if bl == el else len(want_line) - want_begin)
                got = (line_no, quoted, ind, carets)
                want = (bl, want_line, want_begin, want_len)
                if got != want:
                    what = 'line' if line_no != bl or quoted != want_line else 'caret'
                    sig = [variant, f'quotation-{what}', 'multi-line' if bl != el else 'single-line']
                    if tuple(sig) not in seen:
                        seen.add(tuple(sig))
                        viol.append((sig, f'{mod} {path}: quotation {got!r}, expected {want!r}', {'src': text}))
    except Exception as e:  # noqa
        viol.append((['render-check-raises', type(e).__name__], f'{mod}: {type(e).__name__}: {e}', {'src': text}))
    finally:
        try:
            os.remove(fp)
        except OSError:
            pass
    return viol, n


def run(ctx):
    sents = corpus.sentence_corpus(ctx.quick)
    reals = corpus.real_modules()
    texts = sents + corpus.block_programs() + [src for _, _, src in reals]
    # files whose last line holds only the indentation of the open block and no newline (an editor that indents the next line)
    def _open_tail(t):
        last = t.rstrip('\n').split('\n')[-1]
        ind = last[:len(last) - len(last.lstrip())]
        return t.rstrip('\n') + '\n' + ind if ind in ('\t', '\t\t', '    ') else None
    tails = [x for x in (_open_tail(t) for t in corpus.block_programs()) if x]
    texts += tails
    ctx.log(f'{len(texts)} texts')
    results = pool.pmap(worker, pool.chunked(texts, 200), workers=ctx.workers, init=_init_worker, rotate=ctx.seed)
    n = rejected = 0
    for res in results:
        for viol, cnt in res:
            if viol is None:
                rejected += 1
                continue
            n += 1
            ctx.merge(viol)
    # quotation check on disk: block programs, statement sentences with newlines, real modules (quick: a slice)
    multi = [t for t in sents if '\n' in t]
    rtexts = corpus.block_programs() + multi[::(9 if ctx.quick else 2)] + [src for _, _, src in (reals[:6] if ctx.quick else reals)]
    # files that begin with blank or blank-only lines, or end without a newline / with several
    base = corpus.block_programs() + multi[::(40 if ctx.quick else 10)]
    # characters str.splitlines() treats as line ends but the parser does not: in a comment before the code
    seps = ['\x0c', '\x0b', '\x1c', '\x1d', '\x1e', '\x85', '\u2028', '\u2029']
    rtexts += [f'# page{c}break\n' + t for c in seps for t in base[:2]] + [t.replace('\n', '\r\n') for t in base[:3]]
    rtexts += tails[:8]
    rtexts += ['\n\n' + t for t in base] + ['  \n\t\n' + t for t in base[:6]] + ['# c\n\n' + t for t in base[:6]] + [t.rstrip('\n') + '\n\n\n' for t in base[:6]]
    res2 = pool.pmap(render_check, list(enumerate(rtexts)), workers=ctx.workers, rotate=ctx.seed)
    quoted = 0
    for viol, cnt in res2:
        quoted += cnt
        ctx.merge(viol)
    return {
        'evaluations': n * 2 + len(rtexts),
        'distinct_nontrivial': n,
        'rule': 'every tree of the enumerated sentence corpus, the block programs (tab, 4-space and 2-space indented) and every real module; each checked fresh and restored from the stored form; every entry: token-aligned span, leaves inside span == leaves of subtree, child inside parent, no blank edges; a restored entry reports the span of the freshly parsed one; childless rule entries address text; on-disk modules (loaded by the application with its default source provider, fresh and cache-restored; also files beginning with blank lines, blank-only lines or a comment, and ending with several newlines): the same span rules on the loaded tree and the ErrorRender quotation of every node; non-trivial = accepted by the grammar',
        'samples': texts[:2] + [corpus.block_programs()[1][:80]] + [m for m, _, _ in reals[:2]],
        'quotations_checked': quoted,
        'rejected_by_grammar': rejected,
        'exhaustive': True,
        'bound': 'corpus as stated',
    }


def replay(ctx, data):
    _init_worker()
    viol, _ = tree_check(data['src'])
    ctx.merge(viol or [])
    v2, _ = render_check((0, data['src']))
    ctx.merge(v2)
