"""Fork-based worker pool: deterministic sharding, results returned in item order.

pmap(func, items, workers, init=None, chunk=None) -> list of results, order = order of items.
Workers are forked from the current process (so anything imported / built before the call is shared
copy-on-write), items are assigned round-robin by index, results come back pickled over a pipe.
A worker that dies is a harness error.
"""
from __future__ import annotations

import os
import pickle
import signal
import struct
import sys
import traceback
from typing import Any, Callable, Iterable, Sequence


class CaseTimeout(BaseException):
    pass


def _alarm(signum, frame):
    raise CaseTimeout()


def with_timeout(seconds: float, fn: Callable[[], Any]) -> Any:
    """Run fn under a SIGALRM budget (main thread only). Raises CaseTimeout."""
    old = signal.signal(signal.SIGALRM, _alarm)
    signal.setitimer(signal.ITIMER_REAL, seconds)
    try:
        return fn()
    finally:
        signal.setitimer(signal.ITIMER_REAL, 0)
        signal.signal(signal.SIGALRM, old)


def _write_all(fd: int, data: bytes) -> None:
    view = memoryview(data)
    while view:
        n = os.write(fd, view)
        view = view[n:]


def _read_exact(fd: int, n: int) -> bytes:
    chunks = []
    while n:
        b = os.read(fd, min(n, 1 << 20))
        if not b:
            raise EOFError
        chunks.append(b)
        n -= len(b)
    return b''.join(chunks)


def pmap(func: Callable[[Any], Any], items: Sequence[Any], workers: int = 16, init: Callable[[], None] | None = None, rotate: int = 0, progress: Callable[[int, int], None] | None = None) -> list[Any]:
    n = len(items)
    if n == 0:
        return []
    workers = max(1, min(workers, n))
    if workers == 1:
        if init:
            init()
        return [func(it) for it in items]

    import selectors
    sel = selectors.DefaultSelector()
    pids = {}
    sys.stdout.flush()
    sys.stderr.flush()
    for w in range(workers):
        r, wfd = os.pipe()
        pid = os.fork()
        if pid == 0:
            try:
                os.close(r)
                _session = sys.modules.get('mc.tranp.session')
                if _session is not None:
                    _session.on_fork()
                if init:
                    init()
                for i in range(n):
                    if (i + rotate) % workers != w:
                        continue
                    try:
                        res = ('ok', func(items[i]))
                    except BaseException as e:  # noqa
                        res = ('err', f'{type(e).__name__}: {e}\n{traceback.format_exc()}')
                    try:
                        blob = pickle.dumps((i, res), protocol=pickle.HIGHEST_PROTOCOL)
                    except Exception as e:
                        blob = pickle.dumps((i, ('err', f'unpicklable result: {e}')))
                    _write_all(wfd, struct.pack('<Q', len(blob)) + blob)
                os.close(wfd)
            finally:
                _session = sys.modules.get('mc.tranp.session')
                if _session is not None:
                    try:
                        _session.cleanup()
                    except Exception:  # noqa
                        pass
                os._exit(0)
        os.close(wfd)
        os.set_blocking(r, True)
        sel.register(r, selectors.EVENT_READ, pid)
        pids[pid] = r

    results: list[Any] = [None] * n
    got = [False] * n
    done = 0
    open_fds = set(pids.values())
    try:
        while open_fds:
            for key, _ in sel.select():
                fd = key.fd
                try:
                    head = _read_exact(fd, 8)
                except EOFError:
                    sel.unregister(fd)
                    os.close(fd)
                    open_fds.discard(fd)
                    continue
                (ln,) = struct.unpack('<Q', head)
                i, res = pickle.loads(_read_exact(fd, ln))
                if res[0] == 'err':
                    raise RuntimeError(f'worker failed on item {i}: {res[1]}')
                results[i] = res[1]
                got[i] = True
                done += 1
                if progress and done % 500 == 0:
                    progress(done, n)
    finally:
        for fd in list(open_fds):
            try:
                os.close(fd)
            except OSError:
                pass
        if done < n:
            for pid in pids:
                try:
                    os.kill(pid, signal.SIGKILL)
                except OSError:
                    pass
        for pid in pids:
            try:
                os.waitpid(pid, 0)
            except ChildProcessError:
                pass
    if not all(got):
        missing = [i for i, g in enumerate(got) if not g][:5]
        raise RuntimeError(f'worker died without reporting items {missing} ...')
    return results


def chunked(items: Sequence[Any], size: int) -> list[list[Any]]:
    return [list(items[i:i + size]) for i in range(0, len(items), size)]
