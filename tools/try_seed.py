#!/usr/bin/env python3
"""Dev-time: apply a seeded change to /repo, run the baseline suite and the given checks, undo the change.

Usage: tools/try_seed.py <patch.diff> C01[,C03,...] [--tier quick|thorough] [--no-baseline] [--demo demo.py]
Prints one line per check: DETECTED (exit 1 + VIOLATION line) / MISSED (exit 0) / BROKEN (other exit code).
"""
import os
import subprocess
import sys

VERIF = os.path.dirname(os.path.dirname(os.path.abspath(__file__)))


def sh(cmd, **kw):
    return subprocess.run(cmd, shell=True, capture_output=True, text=True, **kw)


def main():
    args = sys.argv[1:]
    patch = os.path.abspath(args[0])
    checks = args[1].split(',')
    tier = args[args.index('--tier') + 1] if '--tier' in args else 'quick'
    demo = os.path.abspath(args[args.index('--demo') + 1]) if '--demo' in args else None
    if sh('git -C /repo status --porcelain').stdout.strip():
        print('refusing: /repo is not clean')
        return 2
    if demo:
        r = sh(f'PYTHONPATH=/tmp/pyshim:/repo /venv/bin/python {demo} /repo')
        print(f'demo on clean tree: exit {r.returncode} {r.stdout.strip().splitlines()[-1:] }')
    r = sh(f'git -C /repo apply {patch}')
    if r.returncode != 0:
        print('patch does not apply:', r.stderr[:300])
        return 2
    try:
        if demo:
            r = sh(f'PYTHONPATH=/tmp/pyshim:/repo /venv/bin/python {demo} /repo')
            print(f'demo on changed tree: exit {r.returncode} {r.stdout.strip().splitlines()[-1:]}')
        if '--no-baseline' not in args:
            r = sh(f'{VERIF}/tools/baseline.sh')
            print(r.stdout.strip().splitlines()[0] if r.stdout.strip() else 'baseline: no output')
        for c in checks:
            r = sh(f'{VERIF}/check {c} --tier {tier}', env=dict(os.environ, VERIF_MAX_REPORT='5'))
            viol = [l for l in r.stdout.splitlines() if l.startswith('VIOLATION')]
            sigs = [l.strip() for l in r.stdout.splitlines() if l.strip().startswith('signature=')]
            status = 'DETECTED' if r.returncode == 1 and viol else ('MISSED' if r.returncode == 0 else f'BROKEN(exit {r.returncode})')
            print(f'{c}: {status} violations={len(viol)}')
            for s in sigs[:3]:
                print('    ' + s[:200])
            if status.startswith('BROKEN'):
                print('    ' + r.stderr.strip().splitlines()[-1][:300] if r.stderr.strip() else '')
    finally:
        sh('git -C /repo checkout -- .')
        sh(f'git -C {VERIF} checkout -- evidence replays 2>/dev/null')
        sh(f'git -C {VERIF} clean -fdq replays')
    return 0


if __name__ == '__main__':
    sys.exit(main())
