#!/venv/bin/python
"""MANIFEST.setup_cmd: nothing is built ahead of time; verify the toolchain and that the framework byte-compiles."""
import os, py_compile, shutil, subprocess, sys
VERIF = os.path.dirname(os.path.dirname(os.path.abspath(__file__)))
ok = True
for root, _, files in os.walk(os.path.join(VERIF, 'mc')):
    for fn in files:
        if fn.endswith('.py'):
            try:
                compile(open(os.path.join(root, fn)).read(), os.path.join(root, fn), 'exec')
            except SyntaxError as e:
                print('compile error:', e); ok = False
for tool in ['g++']:
    if not shutil.which(tool):
        print('missing tool:', tool); ok = False
if not os.path.isdir('/repo/rogw/tranp'):
    print('missing /repo/rogw/tranp'); ok = False
os.makedirs(os.path.join(VERIF, 'evidence'), exist_ok=True)
print('setup ok' if ok else 'setup FAILED')
sys.exit(0 if ok else 1)
