#!/bin/bash
# Runs the pinned baseline suite (guard OFF, no shim) in REPO (default /repo) and compares with BASELINE.json stable_pass.
REPO=${1:-/repo}
OUT=$(mktemp /tmp/baseline.XXXXXX.xml)
rm -rf "$REPO/.cache"; cd "$REPO" && env -u ROG_WORKS_TRANP_VERIF -u PYTHONPATH PYTHONDONTWRITEBYTECODE=1 /venv/bin/python -m pytest -ra -q -p no:cacheprovider --timeout=900 --continue-on-collection-errors --junitxml="$OUT" >/dev/null 2>&1
python3 - "$OUT" <<'PY'
import json, sys, xml.etree.ElementTree as ET
base = set(json.load(open('/root/.vp/BASELINE.json'))['stable_pass'])
passed = set()
for tc in ET.parse(sys.argv[1]).getroot().iter('testcase'):
    if not any(ch.tag in ('failure', 'error', 'skipped') for ch in tc):
        passed.add(f"{tc.get('classname')}::{tc.get('name')}")
missing = sorted(base - passed)
print(f'baseline: {len(base & passed)}/{len(base)} stable tests pass; extra passing: {len(passed - base)}')
for m in missing[:20]:
    print('  MISSING', m)
sys.exit(1 if missing else 0)
PY
RC=$?
rm -f "$OUT"
exit $RC
