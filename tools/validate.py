#!/usr/bin/env python3
"""Dev-time: validate MANIFEST.json and evidence/*.json against the schemas (needs jsonschema: run with python3-vt)."""
import glob, json, sys
import jsonschema
ok = True
m = json.load(open('/verif/MANIFEST.json'))
try:
    jsonschema.validate(m, json.load(open('/root/.vp/MANIFEST.schema.json')))
except jsonschema.ValidationError as e:
    print('MANIFEST invalid:', e.message); ok = False
es = json.load(open('/root/.vp/EVIDENCE.schema.json'))
for c in m['checks']:
    try:
        jsonschema.validate(json.load(open(c['evidence_file'])), es)
    except Exception as e:
        print(c['property_id'], 'evidence invalid:', getattr(e, 'message', e)); ok = False
print('valid' if ok else 'INVALID')
sys.exit(0 if ok else 1)
