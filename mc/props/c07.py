"""C07 -- failures are always reported as tranp errors, never internal crashes.

Engine E2, deviation bounded: seed programs covering every statement kind; every single token-level
deviation (delete, duplicate, replace by each token of an alphabet, insert each token at each gap, change
one indentation), byte-level truncations and insertions, well-formed but ill-typed programs, token soups.
Each text goes through both module kinds (in memory, on disk): load -> type_of on every node -> transpile,
under an alarm. Outcome must be success or an Errors.Error; text the grammar rejects must be Errors.Syntax on
both paths; ErrorRender must render; a session that handled a failure must keep working.
"""
import io
import itertools
import os
import shutil
import tokenize
import traceback

from mc.core import pool

ID = 'C07'
LEVEL = 'exploration'

SEEDS = {
    'func': 'def f(a: int, b: int) -> int:\n\tx = a + b * 2\n\tif x > 3:\n\t\treturn x\n\treturn -x\n',
    'loop': 'def g(n: int) -> int:\n\tt = 0\n\tfor i in range(n):\n\t\tif i % 2 == 0:\n\t\t\tcontinue\n\t\tt += i\n\twhile t > 10:\n\t\tt -= 3\n\t\tbreak\n\treturn t\n',
    'class': 'class A:\n\tv: int\n\n\tdef __init__(self, v: int) -> None:\n\t\tself.v = v\n\n\tdef get(self) -> int:\n\t\treturn self.v\n\ndef h(n: int) -> int:\n\ta = A(n)\n\treturn a.get()\n',
    'coll': "def k(n: int) -> int:\n\txs = [1, n]\n\td = {'a': n}\n\tys = [x * 2 for x in xs if x > 0]\n\tt = (n, 's')\n\treturn xs[0] + d['a'] + len(ys) + t[0]\n",
    'try': "def m(n: int) -> int:\n\ttry:\n\t\tif n > 0:\n\t\t\traise RuntimeError('x')\n\t\treturn 1\n\texcept RuntimeError as e:\n\t\treturn 2\n",
    'misc': "from enum import Enum\n\nclass E(Enum):\n\tA = 1\n\nV: int = 3\n\ndef p(n: int) -> str:\n\ts = 'a' if n > V else 'b'\n\tassert n != 0, 'zero'\n\tdel s\n\tpass\n\treturn str(E.A.value)\n",
    'lambda': "from collections.abc import Callable\n\ndef q(n: int) -> int:\n\tf: Callable[[int], int] = lambda x: x + n\n\twith open('p') as fp:\n\t\tn += 1\n\treturn f(n) and n or not n\n",
}
TOKEN_ALPHABET = ['a', 'self', '1', '1.5', "'s'", 'None', 'True', '(', ')', '[', ']', '{', '}', ',', ':', '.', '=', '==', '+', '-', '*', '/', '%', '<', '->', '@', 'if', 'else', 'for', 'in', 'def', 'class',
                  'return', 'not', 'and', 'lambda', 'int', 'str', '**', '...', 'import', 'from']
BYTES = ['\t', '\\', '\r', "'", '"', '#', '\x00', 'é', ' ', '\n']

ILL_TYPED = {
    'undefined-name': 'def f(a: int) -> int:\n\treturn a + zz\n',
    'undefined-attr': 'class A:\n\tv: int\n\n\tdef __init__(self) -> None:\n\t\tself.v = 1\n\ndef f() -> int:\n\ta = A()\n\treturn a.w\n',
    'attr-of-scalar': 'def f(a: int) -> int:\n\treturn a.x\n',
    'wrong-arity': 'def g(a: int) -> int:\n\treturn a\n\ndef f() -> int:\n\treturn g(1, 2)\n',
    'call-non-callable': 'def f(a: int) -> int:\n\treturn a(1)\n',
    'unannotated-param': 'def f(a) -> int:\n\treturn a\n',
    'unsupported-spread': 'def f(a: list[int]) -> int:\n\tb = [*a]\n\treturn b[0]\n',
    'union-assign': 'def f(a: int) -> int:\n\tb: int | str = a\n\treturn b\n',
    'undefined-type': 'def f(a: Zz) -> int:\n\treturn 1\n',
    'undefined-base': 'class A(Zz):\n\tpass\n',
    'undefined-import': 'from nowhere import thing\n\ndef f() -> int:\n\treturn thing\n',
    'import-missing-name': 'from enum import Nope\n\ndef f() -> int:\n\treturn 1\n',
    'index-scalar': 'def f(a: int) -> int:\n\treturn a[0]\n',
    'str-minus-int': "def f(a: int) -> int:\n\treturn 's' - a\n",
    'return-in-module': 'return 1\n',
    'generic-arity-dict': 'a: dict[str] = {}\n',
    'generic-arity-dict-param': 'def f(d: dict[str]) -> int:\n\treturn 1\n',
    'generic-arity-list': 'a: list[int, str] = []\n',
    'generic-arity-callable': 'from collections.abc import Callable\n\ndef f(g: Callable[int]) -> int:\n\treturn 1\n',
    'generic-arity-tuple-empty': 'def f(t: tuple[()]) -> int:\n\treturn 1\n',
    'generic-on-scalar': 'a: int[str] = 1\n',
    'unannotated-method-param': 'class A:\n\tdef f(self, a) -> None:\n\t\tpass\n',
    'unannotated-return': 'def f(a: int):\n\treturn a\n',
    'unannotated-lambda-assign': 'g = lambda x: x\n',
    'unpack-arity': 'a, b, c = (1, 2)\n',
    'self-assign': 'a = a\n',
    'embed-actual-no-args-call': '@__actual__()\nclass A:\n\tpass\n',
    'embed-actual-bare': '@__actual__\nclass A:\n\tpass\n',
    'embed-alias-no-args': 'from rogw.tranp.compatible.python.embed import Embed\n\n@Embed.alias()\nclass A:\n\tpass\n',
    'embed-prop-no-args': 'from rogw.tranp.compatible.python.embed import Embed\n\nclass A:\n\t@Embed.prop()\n\tdef f(self) -> int:\n\t\treturn 1\n',
    'class-without-init-decl': 'class A:\n\tx: int\n\nclass B(A):\n\ty: int\n\ndef f(b: B) -> int:\n\treturn b.x\n',
    'except-without-as': 'def f() -> int:\n\ttry:\n\t\treturn 1\n\texcept ValueError:\n\t\treturn 2\n',
    'nested-target': 'def f(x: tuple[tuple[int, int], int]) -> int:\n\t(a, b), c = x\n\treturn a\n',
    'self-import': 'from __main__ import A\n\nclass A:\n\tpass\n',
    'self-outside-class': 'def f() -> int:\n\treturn self.v\n',
    'super-outside-class': 'def f() -> int:\n\treturn super().v\n',
    'duplicate-def': 'def f() -> int:\n\treturn 1\n\ndef f() -> str:\n\treturn 1\n',
    'lambda-unannotated': 'def f(a: int) -> int:\n\tg = lambda x: x\n\treturn g(a)\n',
    'enum-bad-value': 'from enum import Enum\n\nclass E(Enum):\n\tA = [1]\n\ndef f() -> int:\n\treturn E.A.value\n',
    'break-outside-loop': 'def f() -> int:\n\tbreak\n\treturn 1\n',
    'nested-class-ref': 'class A:\n\tclass B:\n\t\tpass\n\ndef f() -> int:\n\tb = A.C()\n\treturn 1\n',
    'tuple-unpack-mismatch': 'def f() -> int:\n\ta, b, c = (1, 2)\n\treturn a\n',
    'for-over-int': 'def f(a: int) -> int:\n\tfor i in a:\n\t\tpass\n\treturn 1\n',
    'dict-missing-type': 'def f() -> int:\n\td = {}\n\treturn d[0]\n',
    'list-empty-literal': 'def f() -> int:\n\txs = []\n\treturn len(xs)\n',
    'method-on-none': 'def f() -> int:\n\tx = None\n\treturn x.y\n',
    'generic-missing-arg': 'def f(a: list) -> int:\n\treturn a[0]\n',
    'decorator-unknown': '@zz\ndef f() -> int:\n\treturn 1\n',
    'raise-non-exception': 'def f() -> int:\n\traise 1\n',
    'with-non-cm': 'def f(a: int) -> int:\n\twith a as b:\n\t\tpass\n\treturn 1\n',
    'comp-over-int': 'def f(a: int) -> int:\n\txs = [x for x in a]\n\treturn 1\n',
    'keyword-arg-unknown': 'def g(a: int) -> int:\n\treturn a\n\ndef f() -> int:\n\treturn g(b=1)\n',
    'init-returns': 'class A:\n\tdef __init__(self) -> int:\n\t\treturn 1\n',
    'field-not-declared': 'class A:\n\tdef __init__(self, v: int) -> None:\n\t\tself.v = v\n\ndef f() -> int:\n\treturn A(1).v\n',
}


def tokens_of(src: str):
    out = []
    for t in tokenize.generate_tokens(io.StringIO(src).readline):
        if t.type in (tokenize.ENDMARKER,):
            continue
        out.append(t)
    return out


def render_tokens(items) -> str:
    """items: list of (type, string); INDENT/DEDENT/NEWLINE tracked to rebuild layout with tabs."""
    out, depth, at_line_start = [], 0, True
    for typ, text in items:
        if typ == tokenize.INDENT:
            depth += 1
            continue
        if typ == tokenize.DEDENT:
            depth = max(0, depth - 1)
            continue
        if typ in (tokenize.NEWLINE, tokenize.NL):
            out.append('\n')
            at_line_start = True
            continue
        if at_line_start:
            out.append('\t' * depth)
            at_line_start = False
        else:
            out.append(' ')
        out.append(text)
    return ''.join(out)


def token_mutations(src: str, alphabet, pairs=False):
    toks = [(t.type, t.string) for t in tokens_of(src)]
    idx = [i for i, (typ, _) in enumerate(toks) if typ not in (tokenize.INDENT, tokenize.DEDENT, tokenize.NEWLINE, tokenize.NL)]
    for i in idx:
        yield 'delete', render_tokens(toks[:i] + toks[i + 1:])
        yield 'duplicate', render_tokens(toks[:i + 1] + [toks[i]] + toks[i + 1:])
        for a in alphabet:
            if a != toks[i][1]:
                yield 'replace', render_tokens(toks[:i] + [(tokenize.OP, a)] + toks[i + 1:])
            yield 'insert', render_tokens(toks[:i] + [(tokenize.OP, a)] + toks[i:])
    # well-formed deviations: one annotation removed (': T' of a parameter or variable, '-> T' of a function), one
    # name replaced by an undefined one, one call argument dropped
    for i, (typ, text) in enumerate(toks):
        if text in (':', '->') and i + 1 < len(toks) and toks[i + 1][0] == tokenize.NAME and toks[i + 1][1] not in ('pass', 'return', 'raise', 'if', 'for', 'while'):
            j = i + 2
            if j < len(toks) and toks[j][1] == '[':   # generic annotation: drop the bracket group as well
                depth = 0
                while j < len(toks):
                    depth += toks[j][1] == '['
                    depth -= toks[j][1] == ']'
                    j += 1
                    if depth == 0:
                        break
            yield 'drop-annotation', render_tokens(toks[:i] + toks[j:])
        if typ == tokenize.NAME and i > 0 and toks[i - 1][1] not in ('def', 'class', 'import', 'from', 'as', '.'):
            yield 'undefined-name', render_tokens(toks[:i] + [(tokenize.NAME, 'zz_undefined')] + toks[i + 1:])
    # layout deviations: one INDENT/DEDENT removed or added, one NEWLINE removed
    for i, (typ, _) in enumerate(toks):
        if typ in (tokenize.INDENT, tokenize.DEDENT, tokenize.NEWLINE):
            yield 'layout-remove', render_tokens(toks[:i] + toks[i + 1:])
        if typ == tokenize.NEWLINE:
            yield 'layout-add-indent', render_tokens(toks[:i + 1] + [(tokenize.INDENT, '')] + toks[i + 1:])
            yield 'layout-add-dedent', render_tokens(toks[:i + 1] + [(tokenize.DEDENT, '')] + toks[i + 1:])


def byte_mutations(src: str):
    for k in range(len(src) + 1):
        yield 'truncate', src[:k]
    for k in range(0, len(src) + 1):
        for b in BYTES:
            yield 'insert-byte', src[:k] + b + src[k:]


def soups(n: int):
    alpha = ['a', '1', "'s'", '(', ')', ':', '=', '+', 'def', 'if', 'return', '\n', '\t', ',', '.', '[', ']', 'lambda', 'class', '->', 'int']
    for k in range(1, n + 1):
        for seq in itertools.product(alpha, repeat=k):
            yield 'soup', ' '.join(seq) + '\n'


# ---------------------------------------------------------------------------------------------- judging

_state = {}


def _lark():
    if 'lark' not in _state:
        from mc.tranp.session import Session
        from rogw.tranp.syntax.ast.parser import SyntaxParser
        s = Session({'__main__': 'a = 1\n'})
        _state['lark'] = s.get(SyntaxParser).dirty_get_origin()
    return _state['lark']


def innermost_rogw(e: BaseException) -> str:
    tb = e.__traceback__
    last = '?'
    for fs in traceback.extract_tb(tb):
        if '/rogw/' in fs.filename:
            last = f'{os.path.basename(fs.filename)}:{fs.name}'
    return last


def pipeline(session, name: str):
    """load -> type_of on every node -> transpile. Raises whatever tranp raises."""
    mod = session.load(name)
    refl = session.reflections
    from rogw.tranp.errors import Errors
    for node in mod.entrypoint.procedural():
        try:
            refl.type_of(node)
        except Errors.Error:
            pass
    return session.transpile(name)


def classify(fn):
    """Run fn under an alarm; returns ('ok',) | ('error', class name, exc) | ('raw', class, where, message) | ('timeout',)."""
    from rogw.tranp.errors import Errors
    try:
        pool.with_timeout(10, fn)
        return ('ok',)
    except pool.CaseTimeout:
        return ('timeout',)
    except Errors.Error as e:
        return ('error', type(e).__name__, e)
    except RecursionError as e:
        return ('raw', 'RecursionError', innermost_rogw(e), '')
    except BaseException as e:  # noqa
        return ('raw', type(e).__name__, innermost_rogw(e), str(e)[:160])


def judge_text(kind: str, text: str, k: int):
    from mc.tranp.session import Session, ensure_workdir
    from rogw.tranp.view.error_render import ErrorRender
    viol = []
    def accepts(t):
        try:
            _lark().parse(t)
            return True
        except RecursionError:
            return True
        except Exception:  # noqa
            return False
    # each path is judged against exactly the text it hands to the parser (the interactive loop appends a newline)
    parsable_by = {'memory': accepts(text + '\n'), 'disk': accepts(text)}
    parsable = parsable_by['disk']
    outcomes = []
    # --- in memory (what the interactive loop does: replace the source of __main__, unload, load, transpile)
    sess = _state.get('session')
    if sess is None:
        sess = _state['session'] = Session({'__main__': 'a = 1\n'})
        sess.load('__main__')

    def run_mem():
        sess.sources['__main__'] = text + '\n'
        sess.modules.unload('__main__')
        pipeline(sess, '__main__')
    r1 = classify(run_mem)
    # --- on disk
    wd = ensure_workdir()
    pkg = f'c07w{os.getpid()}'
    os.makedirs(os.path.join(wd, pkg), exist_ok=True)
    fp = os.path.join(wd, pkg, f'm{k}.py')
    with open(fp, 'w', encoding='utf-8', newline='') as f:
        f.write(text)
    dsess = _state.get('dsession')
    if dsess is None:
        dsess = _state['dsession'] = Session({})
        dsess.warm()
    r2 = classify(lambda: pipeline(dsess, f'{pkg}.m{k}'))
    try:
        dsess.unload(f'{pkg}.m{k}')
    except BaseException:  # noqa
        _state['dsession'] = None
    if r2[0] in ('raw', 'timeout'):
        _state['dsession'] = None
    r2b = None
    if parsable and r2[0] in ('ok', 'error') and _state.get('dsession') is not None:
        # history: the unchanged file is processed again against the cache files the first run left behind
        r2b = classify(lambda: pipeline(dsess, f'{pkg}.m{k}'))
        try:
            dsess.unload(f'{pkg}.m{k}')
        except BaseException:  # noqa
            _state['dsession'] = None
        if r2b[0] in ('raw', 'timeout'):
            _state['dsession'] = None
    parsable_by['disk-second-run'] = parsable_by['disk']
    for path, r in (('memory', r1), ('disk', r2)) + ((('disk-second-run', r2b),) if r2b else ()):
        if path != 'disk-second-run':
            outcomes.append(r[0] if r[0] != 'error' else f'error:{r[1]}')
        rep = {'kind': kind, 'text': text}
        if r[0] == 'raw':
            viol.append((['raw-exception', r[1], r[2], path], f'{path}: {r[1]} escaped from {r[2]}: {r[3]}  input {text!r}', rep))
        elif r[0] == 'timeout':
            viol.append((['no-termination', path], f'{path}: no result within 10 s for {text!r}', rep))
        elif r[0] == 'error':
            if not parsable_by[path] and r[1] != 'Syntax':
                viol.append((['unparsable-not-syntax-error', r[1], path], f'{path}: the grammar rejects the text but the error is {r[1]}, not Syntax: {text!r}', rep))
            try:
                out = str(ErrorRender(r[2]))
                if not out:
                    viol.append((['render-empty', path], f'{path}: empty rendering for {r[1]}', rep))
            except BaseException as e:  # noqa
                viol.append((['render-raises', type(e).__name__, r[1], path], f'{path}: ErrorRender raised {type(e).__name__}: {e} for {r[1]} on {text!r}', rep))
        elif r[0] == 'ok' and not parsable_by[path]:
            viol.append((['unparsable-accepted', path], f'{path}: the grammar rejects the text but the pipeline succeeded: {text!r}', rep))
    # the module file stays in place until its errors have been rendered (the quotation reads the file)
    try:
        os.remove(fp)
    except OSError:
        pass
    shutil.rmtree(os.path.join(wd, '.cache', 'tranp', pkg), ignore_errors=True)
    if r1[0] in ('raw', 'timeout'):
        _state['session'] = None   # do not let a crashed session influence later cases
    else:
        # the interactive loop must keep working after any reported error
        def probe():
            sess.sources['__main__'] = 'def ok(a: int) -> int:\n\treturn a + 1\n'
            sess.modules.unload('__main__')
            return sess.transpile('__main__')
        r3 = classify(probe)
        if r3[0] != 'ok':
            viol.append((['session-broken-after-error', r1[0] if r1[0] != 'error' else r1[1], r3[1] if len(r3) > 1 else r3[0]],
                         f'after handling {text!r} ({outcomes[0]}) a valid program fails in the same session: {r3[:2]}', {'kind': kind, 'text': text}))
            _state['session'] = None
    return viol, tuple(outcomes), parsable


def judge_bytes(kind: str, text: str, k: int):
    """A module file whose bytes are not valid UTF-8 (text = the bytes, latin-1 decoded): as target, and imported by an in-memory main."""
    from mc.tranp.session import Session, ensure_workdir
    from rogw.tranp.view.error_render import ErrorRender
    viol = []
    wd = ensure_workdir()
    pkg = f'c07w{os.getpid()}'
    os.makedirs(os.path.join(wd, pkg), exist_ok=True)
    fp = os.path.join(wd, pkg, f'b{k}.py')
    with open(fp, 'wb') as f:
        f.write(text.encode('latin-1'))
    dsess = _state.get('dsession')
    if dsess is None:
        dsess = _state['dsession'] = Session({})
        dsess.warm()
    r_disk = classify(lambda: pipeline(dsess, f'{pkg}.b{k}'))
    try:
        dsess.unload(f'{pkg}.b{k}')
    except BaseException:  # noqa
        _state['dsession'] = None
    if r_disk[0] in ('raw', 'timeout'):
        _state['dsession'] = None
    msess = Session({'__main__': f'from {pkg}.b{k} import f\n\ndef main() -> int:\n\treturn f(1, 2)\n'})
    r_imp = classify(lambda: pipeline(msess, '__main__'))
    outcomes = []
    for path, r in (('disk', r_disk), ('imported', r_imp)):
        outcomes.append(r[0] if r[0] != 'error' else f'error:{r[1]}')
        rep = {'kind': kind, 'text': text}
        if r[0] == 'raw':
            viol.append((['raw-exception', r[1], r[2], path, 'undecodable-file'], f'{path}: {r[1]} escaped from {r[2]}: {r[3]}  file bytes {text.encode("latin-1")[:60]!r}', rep))
        elif r[0] == 'timeout':
            viol.append((['no-termination', path], f'{path}: no result within 10 s', rep))
        elif r[0] == 'error':
            try:
                if not str(ErrorRender(r[2])):
                    viol.append((['render-empty', path], f'{path}: empty rendering for {r[1]}', rep))
            except BaseException as e:  # noqa
                viol.append((['render-raises', type(e).__name__, r[1], path], f'{path}: ErrorRender raised {type(e).__name__}: {e} for {r[1]}', rep))
        elif r[0] == 'ok':
            viol.append((['undecodable-accepted', path], f'{path}: a file that is not valid UTF-8 was processed without error', rep))
    try:
        os.remove(fp)
    except OSError:
        pass
    shutil.rmtree(os.path.join(wd, '.cache', 'tranp', pkg), ignore_errors=True)
    return viol, tuple(outcomes), False


def worker(batch):
    out = []
    for kind, text in batch:
        _state['n'] = _state.get('n', 0) + 1
        out.append((judge_bytes if kind.startswith('raw-bytes') else judge_text)(kind, text, _state['n']))
    return out


BAD_BYTES = [b'\xe9', b'\xff', b'\xc3', b'\xe2\x82', b'\xed\xa0\x80']


def byte_files(src: str, every: int):
    data = src.encode('utf-8')
    for bad in BAD_BYTES:
        for off in range(0, len(data) + 1, every):
            yield f'raw-bytes:{bad!r}', (data[:off] + bad + data[off:]).decode('latin-1')
    yield 'raw-bytes:utf-16', src.encode('utf-16').decode('latin-1')


DEEP = {
    'paren': lambda n: 'x = ' + '(' * n + '1' + ')' * n + '\n',
    'list': lambda n: 'x = ' + '[' * n + '1' + ']' * n + '\n',
    'unary': lambda n: 'x = ' + '-' * n + '1\n',
    'not': lambda n: 'x = ' + 'not ' * n + 'True\n',
    'attr': lambda n: 'def f(a: int) -> int:\n\treturn a' + '.b' * n + '\n',
    'call': lambda n: 'def f(a: int) -> int:\n\treturn a' + '()' * n + '\n',
    'index': lambda n: 'def f(a: int) -> int:\n\treturn a' + '[0]' * n + '\n',
    'binchain': lambda n: 'x = ' + ' + '.join(['1'] * n) + '\n',
    'ifnest': lambda n: 'def f(a: int) -> int:\n' + ''.join('\t' * (k + 1) + 'if a:\n' for k in range(n)) + '\t' * (n + 1) + 'return a\n\treturn 0\n',
    'ternary': lambda n: 'x = ' + '1 if True else ' * n + '0\n',
    'lambda': lambda n: 'x = ' + 'lambda: ' * n + '0\n',
    'defnest': lambda n: ''.join('\t' * k + f'def f{k}() -> int:\n' for k in range(n)) + '\t' * n + 'return 1\n',
}


def deep_cases(ctx):
    """Nesting depth as the deviation: every family at every depth of the bound. A depth is judged for escaping
    exceptions only; a case that needs more than the time budget is counted as inconclusive (deep inputs are slow)."""
    depths = (25, 60, 1000) if ctx.quick else (25, 60, 120, 250, 500, 1000, 3000)
    out = []
    for fam, make in DEEP.items():
        for n in depths:
            out.append((f'deep:{fam}:{n}', make(n)))
    if ctx.quick:
        out.append(('deep:call:200', DEEP['call'](200)))
    return out


def deep_worker(task):
    kind, text = task
    viol, outcomes, parsable = judge_text(kind, text, 900000 + abs(hash(kind)) % 90000)
    keep = []
    inconclusive = 0
    for sig, what, rep in viol:
        if sig[0] == 'no-termination':
            inconclusive += 1
            continue
        if sig[0] == 'unparsable-not-syntax-error' or sig[0] == 'unparsable-accepted':
            continue   # the reference parser itself gives up on very deep texts
        keep.append((['deep-nesting'] + sig[:2] + [kind.split(':')[1], f'depth={kind.split(":")[2]}', sig[-1]], what[:300], {'kind': kind, 'text': text}))
    return keep, outcomes, inconclusive


CLI_OPTIONS = [(), ('-p',)]   # -p: profile the run (documented option of bin/transpile)


def cli_task(task):
    """bin/transpile on a one-module project: a history of (file content as latin-1 text, forced?, extra options)."""
    import shutil
    from mc.tranp.workspace import Workspace, scratch_root
    label, steps = task
    root = scratch_root('c07-cli-')
    viol = []
    outcomes = []
    try:
        ws = Workspace.create(os.path.join(root, 'ws'))
        for k, (content, force, opts) in enumerate(steps):
            fp = os.path.join(ws.root, 'proj', 'm.py')
            with open(fp, 'wb') as f:
                f.write(content.encode('latin-1'))
            os.utime(fp, (1_700_000_000 + k * 10, 1_700_000_000 + k * 10))
            r = ws.run(force=force, extra_args=opts)
            outcomes.append(r[0] if r[0] == 'ok' else f'error:{r[1]}')
            if r[0] != 'ok' and not (len(r) > 3 and r[3]):
                viol.append((['cli', 'raw-exception', r[1], 'options=' + ' '.join(opts), f'step={k}', 'forced' if force else 'not-forced'],
                             f'bin/transpile {"-f " if force else ""}{" ".join(opts)} (step {k} of {label}): {r[1]}: {r[2][:160]}', {'cli': label, 'steps': [list(s) for s in steps]}))
                break
    finally:
        shutil.rmtree(root, ignore_errors=True)
    return viol, tuple(outcomes)


def cli_cases(ctx):
    good = SEEDS['func']
    texts = list(SEEDS.items()) + list(ILL_TYPED.items()) + [('syntax-1', 'def f(:\n'), ('syntax-2', 'x = (1,\n'), ('syntax-3', '\tx = 1\n')]
    tasks = []
    for k, (name, text) in enumerate(texts):
        # quick: every program without options; with -p the seeds, the syntax errors and every fifth ill-typed program
        both = (not ctx.quick) or name in SEEDS or name.startswith('syntax') or k % 5 == 0
        for opts in (CLI_OPTIONS if both else CLI_OPTIONS[:1]):
            tasks.append((f'{name} {" ".join(opts)}', [(text, True, opts)]))
    bad_bytes = (good.encode('utf-8')[:20] + b'\xe9' + good.encode('utf-8')[20:]).decode('latin-1')
    # histories on one project directory: a good run first, then the file changes and the next run is not forced
    for name, second in [('then-syntax-error', 'def f(:\n'), ('then-ill-typed', ILL_TYPED['undefined-name']), ('then-undecodable', bad_bytes), ('then-empty', ''), ('then-unchanged', good)]:
        for opts in CLI_OPTIONS:
            tasks.append((f'good {name} {" ".join(opts)}', [(good, True, ()), (second, False, opts)]))
            tasks.append((f'good {name} then good {" ".join(opts)}', [(good, True, ()), (second, False, opts), (good, False, opts)]))
    return tasks


def cases(ctx):
    seen = set()
    seeds = SEEDS
    alphabet = TOKEN_ALPHABET if not ctx.quick else TOKEN_ALPHABET[::3]

    def emit(kind, text):
        if text not in seen:
            seen.add(text)
            return [(kind, text)]
        return []
    out = []
    for name, src in SEEDS.items():
        out += emit('seed', src)
    for name, src in ILL_TYPED.items():
        out += emit(f'ill-typed:{name}', src)
    for name, src in seeds.items():
        for kind, text in token_mutations(src, alphabet):
            out += emit(kind, text)
    for name, src in (list(SEEDS.items())[:2] if ctx.quick else SEEDS.items()):
        for kind, text in byte_mutations(src):
            out += emit(kind, text)
    for kind, text in soups(2 if ctx.quick else 3):
        out += emit(kind, text)
    for name, src in (list(SEEDS.items())[:1] if ctx.quick else SEEDS.items()):
        for kind, text in byte_files(src, 1):
            out += emit(kind, text)
    return out


def run(ctx):
    import rogw.tranp.bin.transpile  # noqa  (imported once in the parent; CLI children are forks)
    cs = cases(ctx)
    ctx.log(f'{len(cs)} texts')
    from mc.props.c01 import warm_parent
    warm_parent()
    from mc.tranp.session import Session
    Session({'__warm__': 'from enum import Enum\nfrom collections.abc import Callable\n'}).load('__warm__')
    res = pool.pmap(worker, pool.chunked(cs, 120), workers=ctx.workers, rotate=ctx.seed)
    n = parsable = 0
    outcomes = {}
    for r in res:
        for viol, oc, p in r:
            n += 1
            parsable += 1 if p else 0
            outcomes[oc] = outcomes.get(oc, 0) + 1
            ctx.merge(viol)
    deep = deep_cases(ctx)
    res_deep = pool.pmap(deep_worker, deep, workers=ctx.workers)
    deep_outcomes = {}
    deep_inconclusive = 0
    for viol, oc, inc in res_deep:
        deep_outcomes['|'.join(oc)] = deep_outcomes.get('|'.join(oc), 0) + 1
        deep_inconclusive += inc
        ctx.merge(viol)
    cli = cli_cases(ctx)
    res_cli = pool.pmap(cli_task, cli, workers=ctx.workers)
    cli_outcomes = {}
    for viol, oc in res_cli:
        cli_outcomes[' > '.join(oc)] = cli_outcomes.get(' > '.join(oc), 0) + 1
        ctx.merge(viol)
    top = sorted(outcomes.items(), key=lambda kv: -kv[1])[:25]
    return {
        'evaluations': n * 2 + len(cli),
        'cli_histories': len(cli),
        'deep_nesting_cases': len(deep),
        'deep_nesting_outcomes': deep_outcomes,
        'deep_nesting_inconclusive_after_10s': deep_inconclusive,
        'cli_outcomes': dict(sorted(cli_outcomes.items(), key=lambda kv: -kv[1])[:12]),
        'distinct_nontrivial': n,
        'rule': f'seeds {list(SEEDS)}; ill-typed programs {len(ILL_TYPED)}; every single token deviation (delete, duplicate, replace/insert each of {len(TOKEN_ALPHABET) if not ctx.quick else len(TOKEN_ALPHABET[::3])} tokens, layout token removed/added) of all seeds; every truncation and every byte insertion {BYTES!r} at every offset of {"all" if not ctx.quick else "2"} seeds; token soups of length <= {2 if ctx.quick else 3}; texts are distinct; each runs in memory and on disk; every text the grammar accepts is processed a second time on disk against the cache files the first run left (history of length 2); module files that are not valid UTF-8 (each of {BAD_BYTES!r} inserted at every byte offset of {"one seed" if ctx.quick else "all seeds"}, and a UTF-16 file) as target and imported from an in-memory main; deep-nesting layer: {len(DEEP)} nesting families ({", ".join(DEEP)}) at depths {(25, 60, 1000) if ctx.quick else (25, 60, 120, 250, 500, 1000, 3000)}, judged for escaping exceptions (a path that needs more than 10 s is counted as inconclusive, not as a violation); CLI layer: bin/transpile on a one-module project for every seed, ill-typed program and 3 syntax errors x options {CLI_OPTIONS}{" (-p on the seeds, the syntax errors and every fifth ill-typed program)" if ctx.quick else ""}, and histories good run -> changed file (syntax error, ill-typed, undecodable, empty, unchanged) -> not forced run (-> good again)',
        'samples': [cs[0][1][:80], cs[len(cs) // 2][1][:80], cs[-1][1][:40]],
        'accepted_by_grammar': parsable,
        'outcome_pairs_memory_disk': {f'{a}|{b}': c for (a, b), c in top},
        'exhaustive': True,
        'bound': 'single deviations',
    }


def replay(ctx, data):
    if 'cli' in data:
        import rogw.tranp.bin.transpile  # noqa
        viol, _ = cli_task((data['cli'], [tuple(s[:2]) + (tuple(s[2]),) for s in data['steps']]))
        ctx.merge(viol)
        return
    viol, _, _ = (judge_bytes if data['kind'].startswith('raw-bytes') else judge_text)(data['kind'], data['text'], 0)
    ctx.merge(viol)
