"""C09 -- every handler receives exactly the results of its own children.

Engine E2 (+ deviation-bounded nesting): an identity procedure (every handler returns its node and records
its keyword arguments) is run over every tree of the sentence corpus and every real module. For every
visited node n and every expandable property k: event[k] must be exactly getattr(n, k) (single vs list,
order, identity by module+path+class). Nested processing: at every handler invocation position the
environment may start a nested exec on one of the node's children (0, 1 and -- thorough -- 2 nested starts
per run); the outer observations must not change and the nested run must return its own root.
"""
from mc.core import pool
from mc.gen import corpus

ID = 'C09'
LEVEL = 'exploration'

_state = {}


def _init_worker():
    from mc.tranp.session import Session
    from rogw.tranp.syntax.ast.entrypoints import Entrypoints
    s = Session({'__main__': 'a = 1\n'})
    _state['session'] = s
    _state['eps'] = s.get(Entrypoints)


import zlib


def ident(n):
    return (type(n).__name__, n.full_path)


RUN: dict = {}


def _procs(shared: bool):
    """(procedure, second procedure). shared: the two long-lived objects of this process (as Reflections / Py2Cpp keep
    one Procedure for every tree they ever process); otherwise fresh ones."""
    from rogw.tranp.semantics.procedure import Procedure
    if shared and 'procs' in _state:
        return _state['procs']
    proc, other = Procedure(), Procedure()

    def other_handler(node, **kwargs):
        if RUN['nest_mode'].endswith('raise'):
            raise RuntimeError('failure inside the nested run')
        return node
    other.on('on_fallback', other_handler)

    def handler(node, **kwargs):
        R = RUN
        if R['depth'] > 0:
            if R['nest_mode'].endswith('raise'):
                raise RuntimeError('failure inside the nested run')
            return node
        i = R['counter']
        R['counter'] += 1
        ev = {}
        for k, v in kwargs.items():
            ev[k] = [(None if x is None else ident(x)) for x in v] if isinstance(v, list) else (None if v is None else ident(v))
        R['log'].append((node, ev))
        if R.get('none_mode') and node is not R['root'] and (R['none_mode'] == 'all' or zlib.crc32(node.full_path.encode()) % 3 == 1):
            # (decided per node, not per visit: a node reachable through two properties is handled twice)
            # a handler without a result for this node (a visitor, a printer that emits nothing for it): None is its result
            R['returned'][ident(node)] = False
            return None
        if R['resolve'] is not None:
            # what Py2Cpp's handlers do all the time: resolve the type of the node they are handling
            try:
                R['resolve'].type_of(node)
            except Exception:  # noqa  -- unresolvable nodes are not this property's subject
                pass
        if i in R['nest_at']:
            # what Py2Cpp does for annotations and aliases: process a child tree with the same procedure, inside a handler
            target = None
            for k in node.prop_keys():
                v = getattr(node, k)
                if isinstance(v, list) and v:
                    target = v[0]
                    break
                if not isinstance(v, list):
                    target = v
                    break
            if target is not None:
                R['depth'] += 1
                try:
                    r = (other if R['nest_mode'].startswith('other') else proc).exec(target)
                    R['nested_log'].append((ident(target), ident(r)))
                except Exception:  # noqa  -- the handler deals with the failure of its nested run and carries on
                    if not R['nest_mode'].endswith('raise'):
                        raise
                    R['nested_log'].append((ident(target), ident(target)))
                finally:
                    R['depth'] -= 1
        return node

    proc.on('on_fallback', handler)
    if shared:
        _state['procs'] = (proc, other)
    return proc, other


def run_identity(root, nest_at=(), nest_mode='ok', shared=False, resolve=None, none_mode=None):
    """Returns (log, result, leftover stacks, nested log). log: list of (node, {k: ident | [ident]})."""
    proc, other = _procs(shared)
    RUN.clear()
    RUN.update(log=[], nested_log=[], counter=0, depth=0, nest_at=nest_at, nest_mode=nest_mode, resolve=resolve, none_mode=none_mode, root=root, returned={})
    try:
        result = proc.exec(root)
    except BaseException:
        _state.pop('procs', None)
        raise
    return RUN['log'], result, list(proc._Procedure__stacks), RUN['nested_log']


def judge_tree(root, label, text, max_nest, nest_cap, shared=False, resolve=None, extra=None):
    """Yields violations for one tree. shared: the process-wide procedures are used (history); a violation that a
    fresh procedure does not show is reported as history-dependent."""
    if shared is True:
        viol, n, runs = judge_tree(root, label, text, max_nest, nest_cap, 'inner', resolve, extra)
        if viol:
            _state.pop('procs', None)
            fresh, _, _ = judge_tree(root, label, text, max_nest, nest_cap, False, resolve, extra)
            fresh_sigs = {tuple(v[0]) for v in fresh}
            viol = [((['history-dependent'] + v[0][:2]) if tuple(v[0]) not in fresh_sigs else v[0], v[1], v[2]) for v in viol]
        return viol, n, runs
    shared = bool(shared)
    from rogw.tranp.errors import Errors
    viol = []
    seen = set()

    def add(sig, what):
        if tuple(sig) not in seen:
            seen.add(tuple(sig))
            viol.append((sig, f'{label}: {what}', dict({'src': text} if text is not None else {'module': label}, **(extra or {}))))
    try:
        log, result, stacks, _ = run_identity(root, shared=shared, resolve=resolve)
    except Errors.Error as e:
        node = e.args[0] if e.args and hasattr(e.args[0], 'full_path') else None
        add(['exec-raises', type(e).__name__, type(node).__name__ if node is not None else '?'], f'identity procedure raised {type(e).__name__}: {str(e)[:200]}')
        return viol, 0, 0
    except Exception as e:  # noqa
        add(['exec-crash', type(e).__name__], f'identity procedure raised {type(e).__name__}: {str(e)[:200]}')
        return viol, 0, 0
    if result is not root and ident(result) != ident(root):
        add(['final-result'], f'exec returned {ident(result)}, root is {ident(root)}')
    if stacks:
        add(['stack-not-released'], f'{len(stacks)} stacks left after exec')
    base_obs = []
    for node, ev in log:
        cls = type(node).__name__
        keys = node.prop_keys()
        if set(ev.keys()) != set(keys):
            add(['event-keys', cls], f'{ident(node)}: event keys {sorted(ev)} vs properties {sorted(keys)}')
            continue
        for k in keys:
            want = getattr(node, k)
            if isinstance(want, list):
                w = [ident(x) for x in want]
                if not isinstance(ev[k], list):
                    add(['single-for-list', cls, k], f'{ident(node)}.{k}: got single {ev[k]}, property yields list {w}')
                elif ev[k] != w:
                    add(['wrong-results', cls, k, 'list'], f'{ident(node)}.{k}: got {ev[k]}, own children are {w}')
            else:
                w = ident(want)
                if isinstance(ev[k], list):
                    add(['list-for-single', cls, k], f'{ident(node)}.{k}: got list {ev[k]}, property yields {w}')
                elif ev[k] != w:
                    add(['wrong-results', cls, k, 'single'], f'{ident(node)}.{k}: got {ev[k]}, own child is {w}')
        base_obs.append((ident(node), ev))
    n = len(log)
    runs = 1
    # handlers that have no result for some nodes (every third one / all but the root): the parent receives None at exactly
    # those positions and its other children's results everywhere else
    if not viol:
        for none_mode in ('third', 'all'):
            runs += 1
            try:
                log3, result3, stacks3, _ = run_identity(root, shared=shared, resolve=resolve, none_mode=none_mode)
            except Exception as e:  # noqa
                add(['none-results', 'raises', type(e).__name__, none_mode], f'handlers returning None ({none_mode}): exec raised {type(e).__name__}: {str(e)[:200]}')
                continue
            absent = dict(RUN['returned'])
            if ident(result3) != ident(root) or stacks3 or len(log3) != n:
                add(['none-results', 'final', none_mode], f'handlers returning None ({none_mode}): result {ident(result3) if result3 is not None else None}, {len(stacks3)} stacks left, {len(log3)} of {n} nodes handled')
                continue
            for node, ev in log3:
                bad = None
                for k in node.prop_keys():
                    want = getattr(node, k)
                    w = [(None if ident(x) in absent else ident(x)) for x in want] if isinstance(want, list) else (None if ident(want) in absent else ident(want))
                    if ev.get(k) != w:
                        bad = (k, ev.get(k), w)
                        break
                if bad:
                    add(['none-results', 'wrong-results', type(node).__name__, none_mode], f'handlers returning None ({none_mode}): {ident(node)}.{bad[0]}: got {bad[1]}, own children give {bad[2]}')
                    break
    # nested processing, deviation bounded
    if max_nest >= 1 and not viol:
        positions = list(range(n)) if n <= nest_cap else [int(i * (n - 1) / (nest_cap - 1)) for i in range(nest_cap)]
        combos = [(p,) for p in positions]
        if max_nest >= 2 and n <= 40:
            combos += [(p, q) for p in positions for q in positions if p < q]
        modes = ['ok', 'raise', 'other-ok', 'other-raise']
        for nest, mode in [(n_, m_) for n_ in combos for m_ in (modes if len(n_) == 1 else modes[:2])]:
            runs += 1
            try:
                log2, result2, stacks2, nested = run_identity(root, nest, mode, shared=shared, resolve=resolve)
            except Exception as e:  # noqa
                add(['nested-raises', type(e).__name__, f'nest={len(nest)}', mode], f'nested exec ({mode}) at {nest} raised {type(e).__name__}: {str(e)[:200]}')
                continue
            obs2 = [(ident(nd), ev) for nd, ev in log2]
            if obs2 != base_obs or ident(result2) != ident(root) or stacks2:
                i = next((j for j in range(min(len(obs2), len(base_obs))) if obs2[j] != base_obs[j]), None)
                where = base_obs[i][0][0] if i is not None else 'length/result'
                add(['nested-disturbs-outer', f'nest={len(nest)}', mode, where], f'nested exec ({mode}) at positions {nest}: outer observation #{i} changed')
            for t, r in nested:
                if t != r:
                    add(['nested-result', t[0]], f'nested exec on {t} returned {r}')
    return viol, n, runs


def worker(task):
    texts, max_nest = task
    out = []
    s, eps = _state['session'], _state['eps']
    for t in texts:
        src = t if t.endswith('\n') else t + '\n'
        try:
            import ast
            ast.parse(src)
        except (SyntaxError, ValueError):
            out.append((None, 0, 0))   # lark-only sentence: not a program
            continue
        s.sources['__main__'] = src
        eps.unload('__main__')
        try:
            root = eps.load('__main__')
        except Exception:  # noqa  -- not in the grammar
            out.append((None, 0, 0))
            continue
        # one long-lived procedure per process: every tree is the same module path '__main__' with other content
        hist = _state.setdefault('hist', [])
        out.append(judge_tree(root, repr(t)[:80], t, max_nest, 30, shared=True, extra={'history': hist[:1] + hist[-1:]}))
        hist.append(t)
        if len(hist) > 2:
            del hist[1:-1]
    return out


GENERIC_PROG = '''from typing import Generic, TypeVar

T = TypeVar('T')

class Box(Generic[T]):
	item: T

	def __init__(self, item: T) -> None:
		self.item = item

	def get(self) -> T:
		return self.item

class IntBox(Box[int]):
	def twice(self) -> int:
		return self.item * 2

	def same(self) -> int:
		return self.get()

class Plain:
	v: int

	def __init__(self) -> None:
		self.v = 1

class Sub(Plain):
	def read(self) -> int:
		return self.v

def use(b: IntBox, s: Sub) -> int:
	return b.twice() + b.item + s.read()
'''


def resolve_sets(quick: bool):
    from mc.gen import pyprog
    from mc.props import c08
    sets = [('generic-inheritance', {'gen_inh': GENERIC_PROG})] + [(f'c08-{k}', dict(v)) for k, v in c08.PROGRAMS.items()]
    for i, p in enumerate(list(pyprog.feature_programs(True))[:2 if quick else 8]):
        sets.append((f'feat{i}', {f'feat_mod{i}': p.source}))
    return sets


def resolve_worker(task):
    """Identity procedure whose handlers resolve the type of every node they handle (as Py2Cpp's do), one long-lived
    procedure, every module of the set; then every module a second time (the first pass filled every memo)."""
    from mc.tranp.session import Session
    name, sources, disk = task
    s = Session(dict(sources))
    out = []
    try:
        mods = [s.load(m) for m in list(sources) + list(disk)]
    except Exception:  # noqa
        return [(None, 0, 0)]
    _state.pop('procs', None)
    for rnd in (1, 2):
        for m in mods:
            out.append(judge_tree(m.entrypoint, f'{name}/{m.path} (pass {rnd}, resolving handlers)', None, 1, 8, shared=True, resolve=s.reflections, extra={'resolve_set': name}))
    return out


def real_worker(task):
    mod, max_nest = task
    try:
        root = _state['eps'].load(mod)
    except Exception:  # noqa
        return None, 0, 0
    return judge_tree(root, mod, None, max_nest, 12)


def run(ctx):
    sents = corpus.sentence_corpus(ctx.quick) + corpus.block_programs()
    reals = corpus.real_modules()
    max_nest = 1 if ctx.quick else 2
    ctx.log(f'{len(sents)} sentences, {len(reals)} real modules')
    res = pool.pmap(worker, [(c, max_nest) for c in pool.chunked(sents, 150)], workers=ctx.workers, init=_init_worker, rotate=ctx.seed)
    trees = nodes = runs = rejected = 0
    for r in res:
        for viol, n, k in r:
            if viol is None:
                rejected += 1
                continue
            trees += 1
            nodes += n
            runs += k
            ctx.merge(viol)
    res2 = pool.pmap(real_worker, [(m, 1) for m, _, _ in reals], workers=ctx.workers, init=_init_worker, rotate=ctx.seed)
    real_ok = 0
    for viol, n, k in res2:
        if viol is None:
            continue
        real_ok += 1
        nodes += n
        runs += k
        ctx.merge(viol)
    from mc.props.c01 import warm_parent
    warm_parent()
    rsets = [(n, srcs, []) for n, srcs in resolve_sets(ctx.quick)]
    rsets += [(f'real:{m}', {}, [m]) for m, _, _ in reals if m.endswith(('fixture_db', 'fixture_reflections', 'example'))]
    res3 = pool.pmap(resolve_worker, rsets, workers=ctx.workers, rotate=ctx.seed)
    resolving = 0
    for r in res3:
        for viol, n, k in r:
            if viol is None:
                continue
            resolving += 1
            nodes += n
            runs += k
            ctx.merge(viol)
    return {
        'evaluations': runs,
        'distinct_nontrivial': trees + real_ok,
        'rule': f'identity procedure over every tree of the sentence corpus and every real module; every handler invocation judged against the node\'s own properties; nested exec started at every handler position (<= {max_nest} nested starts per run; positions capped at 30 evenly spaced for larger trees, 12 for real modules); non-trivial = tree accepted by the grammar; the sentence layer uses one long-lived procedure per worker process for all trees (all are module __main__ with other content; a violation a fresh procedure does not show is reported as history-dependent); resolving layer: handlers call Reflections.type_of on the node they handle, over {[n for n, _, _ in rsets]}, each module twice',
        'samples': sents[:2] + sents[len(sents) // 2: len(sents) // 2 + 2] + [m for m, _, _ in reals[:2]],
        'handler_invocations_judged': nodes,
        'real_modules': real_ok,
        'resolving_runs': resolving,
        'rejected_by_grammar': rejected,
        'exhaustive': True,
        'bound': f'corpus as stated; nesting deviations <= {max_nest}',
    }


def replay(ctx, data):
    _init_worker()
    if 'resolve_set' in data:
        from mc.gen import corpus as _c
        name = data['resolve_set']
        tasks = [(n, srcs, []) for n, srcs in resolve_sets(False) if n == name] or [(name, {}, [name.split(':', 1)[1]])]
        for viol, _, _ in resolve_worker(tasks[0]):
            ctx.merge(viol or [])
    elif 'src' in data:
        r = worker((list(data.get('history') or []) + [data['src']], 2))
        for viol, _, _ in r:
            ctx.merge(viol or [])
    else:
        viol, _, _ = real_worker((data['module'], 1))
        ctx.merge(viol or [])
