"""C18 -- fragment splitting helpers respect bracket and quote nesting.

Engine E2: complete enumeration of bracket-balanced fragments built by construction (so the expected
pieces are known without parsing), plus a reference splitter (closer stack, quotes opaque) that is itself
cross-checked against the construction on every fragment (harness self-validation).
"""
from __future__ import annotations

import itertools
import re

from mc.core import pool

ID = 'C18'
LEVEL = 'exploration'

PLAIN = ['a', 'b1', 'c', 'd', 'e', 'f', 'g']
SPECIAL_Q = ['1', '"s"', '"a,b"', '"(x"', "'q'"]
SPECIAL_T = SPECIAL_Q + ['"x y"', '"k:v"', '"p=q"', '"]"', "'<'", '"\'"', '""', 'x->y', 'A::B']
KINDS = ['()', '[]', '{}', '<>']
DELIMS = [',', ':', '=', ' ']


# ---------------------------------------------------------------- fragment shapes
# shape grammar (n = number of atoms):  frag := elem+ ;  elem := ATOM | ATOM group | group ;  group := '(' frag? ')'
# a shape is a nested tuple: frag = ('F', [elem...]); elem = ('A',) | ('C', frag_or_None) | ('G', frag_or_None)

def frags(n: int, depth: int, cache={}):
    """All fragments of size n (size = atoms + groups), group nesting <= depth."""
    key = (n, depth)
    if key in cache:
        return cache[key]
    out = []
    for first_n in range(1, n + 1):
        for e in elems(first_n, depth):
            if first_n == n:
                out.append(('F', [e]))
            else:
                for rest in frags(n - first_n, depth):
                    out.append(('F', [e] + rest[1]))
    cache[key] = out
    return out


def elems(n: int, depth: int):
    out = []
    if n == 1:
        out.append(('A',))
    if depth > 0:
        if n == 1:
            out.append(('G', None))          # empty group "()"
        if n == 2:
            out.append(('C', None))          # call with no arguments "a()"
        if n >= 2:
            for f in frags(n - 1, depth - 1):
                out.append(('G', f))
        if n >= 3:
            for f in frags(n - 2, depth - 1):
                out.append(('C', f))
    return out


def count_atoms_groups(shape):
    if shape is None:
        return 0, 0
    tag = shape[0]
    if tag == 'F':
        a = g = 0
        for e in shape[1]:
            x, y = count_atoms_groups(e)
            a += x
            g += y
        return a, g
    if tag == 'A':
        return 1, 0
    x, y = count_atoms_groups(shape[1])
    return x + (1 if tag == 'C' else 0), y + 1


def render(shape, atoms, kinds, sep, inner_sep):
    """Returns text; consumes atoms/kinds iterators in document order."""
    tag = shape[0]
    if tag == 'F':
        return sep.join(render(e, atoms, kinds, inner_sep, inner_sep) for e in shape[1])
    if tag == 'A':
        return next(atoms)
    head = next(atoms) if tag == 'C' else ''
    k = next(kinds)
    inside = render(shape[1], atoms, kinds, inner_sep, inner_sep) if shape[1] is not None else ''
    return f'{head}{k[0]}{inside}{k[1]}'


def pieces_of(shape, atoms, kinds, inner_sep):
    return [render(e, atoms, kinds, inner_sep, inner_sep) for e in shape[1]]


# ---------------------------------------------------------------- reference splitter

CLOSER = {'(': ')', '[': ']', '{': '}', '<': '>'}


def ref_split(text: str, delim: str) -> list[str]:
    out, stack, quote, begin, i = [], [], None, 0, 0
    while i < len(text):
        ch = text[i]
        if quote:
            if ch == quote:
                quote = None
        elif ch in '"\'':
            quote = ch
        elif ch in CLOSER:
            stack.append(CLOSER[ch])
        elif stack and ch == stack[-1]:
            stack.pop()
        elif not stack and text.startswith(delim, i):
            out.append(text[begin:i].strip(' '))
            begin = i + len(delim)
            i += len(delim)
            continue
        i += 1
    if begin < len(text):
        out.append(text[begin:].strip(' '))
    return out


def ref_blocks(text: str, kind: str) -> list[str]:
    """Groups of `kind` in document order that are reachable from the top through groups of that kind only (groups of
    other kinds and quoted strings are opaque). Independent of tranp: one scan with an explicit stack."""
    res, stack = [], []   # stack of (opener, start, visible, slot)
    quote = None
    for i, ch in enumerate(text):
        if quote:
            if ch == quote:
                quote = None
            continue
        visible = all(o == kind[0] for o, _, _, _ in stack)
        if ch in '"\'':
            quote = ch
            continue
        if ch in CLOSER:
            slot = None
            if ch == kind[0] and visible:
                slot = len(res)
                res.append(None)
            stack.append((ch, i, visible, slot))
        elif stack and ch == CLOSER[stack[-1][0]]:
            o, b, vis, slot = stack.pop()
            if slot is not None:
                res[slot] = text[b:i + 1]
    return res


def balanced(text: str) -> bool:
    stack, quote = [], None
    for ch in text.replace('->', '  '):
        if quote:
            if ch == quote:
                quote = None
        elif ch in '"\'':
            quote = ch
        elif ch in CLOSER:
            stack.append(CLOSER[ch])
        elif ch in CLOSER.values():
            if not stack or stack[-1] != ch:
                return False
            stack.pop()
    return not stack and quote is None


# ---------------------------------------------------------------- case classes for signatures

def special_class(atom: str) -> str:
    if atom and atom[0] in '"\'':
        body = atom[1:-1]
        tags = []
        if any(c in body for c in '([{<'):
            tags.append('open-bracket')
        if any(c in body for c in ')]}>'):
            tags.append('close-bracket')
        if any(c in body for c in ',:= '):
            tags.append('delimiter')
        if any(c in body for c in '"\''):
            tags.append('other-quote')
        if body == '':
            tags.append('empty')
        return 'string[' + '+'.join(tags or ['plain']) + ']'
    if '->' in atom:
        return 'arrow'
    if '::' in atom:
        return 'scope'
    return 'plain'


# Texts outside the quantifier (a '<' comparison, an escaped quote, an unclosed group or string): their results are not
# judged, but a helper that has seen them must still treat every balanced fragment as before (the helpers are called
# with template output of all kinds within one process). Every second chunk of fragments is judged after these calls.
POISONS = ['i < n, i + 1', '"5\\" disk", x', 'f(a, (b', 'g[x', '{k: "v', "h('q, r", 'a > b, c < d', 'T<A, f(x', ')x(', 'p, "q\\\\", r']


def poison():
    from rogw.tranp.view.helper.block import BlockParser
    from rogw.tranp.view.helper.decorator import DecoratorHelper
    from rogw.tranp.implements.cpp.view.cpp_view_helper import CppViewHelper
    calls = 0
    for text in POISONS:
        fs = [lambda d=d: BlockParser.break_separator(text, d) for d in DELIMS]
        fs += [lambda k=k: BlockParser.break_last_block(text, k) for k in KINDS]
        fs += [lambda k=k: BlockParser.parse_bracket(text, k) for k in KINDS]
        fs += [lambda k=k: BlockParser.parse_pair(text, k) for k in KINDS]
        fs += [lambda: (lambda h: (h.path, h.args, h.join_args))(DecoratorHelper(text)), lambda: CppViewHelper.Param.parse(text)]
        for f in fs:
            calls += 1
            try:
                f()
            except Exception:  # noqa
                pass
    return calls


def worker(task):
    """Evaluate all laws on one (shape-index range). Returns (stats, violations)."""
    from rogw.tranp.view.helper.block import BlockParser
    shapes, specials, max_special, kinds_full, pair_specials = task[:5]
    poisoned = len(task) > 5 and task[5]
    if poisoned:
        poison()
    viol = []
    evals = 0
    nontrivial = set()
    outcomes = set()
    selfcheck_fail = []
    for shape in shapes:
        n_atoms, n_groups = count_atoms_groups(shape)
        # atom assignments: all plain, then every choice of <= max_special positions taking each special atom
        assigns = [tuple(PLAIN[:n_atoms])]
        for k in range(1, max_special + 1):
            for pos in itertools.combinations(range(n_atoms), k):
                for sp in itertools.product(specials if k == 1 else pair_specials, repeat=k):
                    a = list(PLAIN[:n_atoms])
                    for p, s in zip(pos, sp):
                        a[p] = s
                    assigns.append(tuple(a))
        kind_assigns = list(itertools.product(KINDS, repeat=n_groups)) if kinds_full or n_groups <= 2 else \
            [tuple(['()'] * n_groups)] + [tuple(k if i == j else '()' for i in range(n_groups)) for j in range(n_groups) for k in KINDS[1:]]
        for atoms in assigns:
            classes = sorted({special_class(a) for a in atoms} - {'plain'})
            for kinds in kind_assigns:
                for delim in DELIMS:
                    for spaced in ([True, False] if delim != ' ' else [False]):
                        sep = (delim + ' ') if spaced else delim
                        if delim in ':=' and spaced:
                            sep = f' {delim} ' if delim == '=' else f'{delim} '
                        # '<' '>' groups with ' ' delimiters etc. are all legal fragments
                        ai, ki = iter(atoms), iter(kinds)
                        text = render(shape, ai, ki, sep, sep)
                        ai, ki = iter(atoms), iter(kinds)
                        expected = [p.strip(' ') for p in pieces_of(shape, ai, ki, sep)]
                        # arrow atoms contain '>' which is a closer without opener: only legal outside <> handling
                        if any('->' in a for a in atoms) and '<>' in kinds:
                            continue
                        # atoms containing the delimiter unquoted (x->y has none; A::B contains ':')
                        if delim == ':' and any('::' in a for a in atoms):
                            continue
                        evals += 1
                        # harness self-validation: reference splitter agrees with the construction
                        rs = ref_split(text, delim)
                        if rs != expected and not any('->' in a for a in atoms):
                            selfcheck_fail.append((text, delim, expected, rs))
                            continue
                        if len(expected) > 1 or n_groups > 0:
                            nontrivial.add((text, delim))
                        # L1 break_separator == expected pieces
                        try:
                            got = BlockParser.break_separator(text, delim)
                            err = None
                        except Exception as e:  # noqa
                            got, err = None, type(e).__name__
                        outcomes.add(len(got) if got is not None else err)
                        if got != expected:
                            if err:
                                kindv = f'raises:{err}'
                            elif len(got) < len(expected):
                                kindv = 'missed-cut'
                            elif len(got) > len(expected):
                                kindv = 'cut-inside-group-or-string' if any(not balanced(p) for p in got) else 'extra-cut'
                            else:
                                kindv = 'wrong-pieces'
                            viol.append((['break_separator', kindv, 'atoms=' + ','.join(classes or ['plain'])],
                                         f'break_separator({text!r}, {delim!r}) = {got!r}, expected {expected!r}',
                                         {'law': 'break_separator', 'text': text, 'delim': delim, 'expected': expected}))
                        elif got is not None:
                            # rejoin law + balanced pieces (follow from equality with construction; asserted anyway)
                            if not all(balanced(p) for p in got):
                                viol.append((['break_separator', 'unbalanced-piece'], f'{text!r} -> {got!r}', {'law': 'break_separator', 'text': text, 'delim': delim, 'expected': expected}))
                    # bracket laws do not depend on the delimiter loop beyond rendering; evaluate once per delim=',' spaced
                # L2..L4 on call-like elements: prefix + group
                ai, ki = iter(atoms), iter(kinds)
                text = render(shape, ai, ki, ', ', ', ')
                last = shape[1][-1]
                if last[0] in ('C', 'G') and len(shape[1]) >= 1:
                    # locate the last top-level group by construction
                    ai, ki = iter(atoms), iter(kinds)
                    parts = pieces_of(shape, ai, ki, ', ')
                    # kinds are consumed in document order: the last element's own group is the first kind it consumes
                    ai2, ki2 = iter(atoms), iter(kinds)
                    for e in shape[1][:-1]:
                        render(e, ai2, ki2, ', ', ', ')
                    head = next(ai2) if last[0] == 'C' else ''
                    k = next(ki2)
                    inside = render(last[1], ai2, ki2, ', ', ', ') if last[1] is not None else ''
                    prefix = ', '.join(parts[:-1] + [head]) if len(parts) > 1 else head
                    full = f'{prefix}{k[0]}{inside}{k[1]}'
                    assert full == text, (full, text)
                    # strings containing a bracket of the kind being scanned are outside the stated domain of break_last_block
                    same_kind_in_string = any(a[0] in '"\'' and (k[0] in a or k[1] in a) for a in atoms)
                    if not same_kind_in_string and not any('->' in a for a in atoms if k == '<>'):
                        evals += 1
                        nontrivial.add((text, 'last', k))
                        try:
                            got = BlockParser.break_last_block(text, k)
                        except Exception as e:  # noqa
                            got = f'raises:{type(e).__name__}'
                        outcomes.add(('last', got == (prefix, inside)))
                        if got != (prefix, inside):
                            viol.append((['break_last_block', 'wrong' if isinstance(got, tuple) else got, 'atoms=' + ','.join(classes or ['plain'])],
                                         f'break_last_block({text!r}, {k!r}) = {got!r}, expected {(prefix, inside)!r}',
                                         {'law': 'break_last_block', 'text': text, 'brackets': k, 'expected': [prefix, inside]}))
                    # L3 parse_bracket: first block is the outermost group, when the text is exactly name+group
                    if len(shape[1]) == 1:
                        if not same_kind_in_string and not any('->' in a for a in atoms):
                            evals += 1
                            try:
                                got = BlockParser.parse_bracket(text, k)
                                first = got[0] if got else None
                            except Exception as e:  # noqa
                                first = f'raises:{type(e).__name__}'
                            want = f'{k[0]}{inside}{k[1]}'
                            outcomes.add(('bracket', first == want))
                            if first != want:
                                viol.append((['parse_bracket', 'first-block', 'atoms=' + ','.join(classes or ['plain'])],
                                             f'parse_bracket({text!r}, {k!r})[0] = {first!r}, expected {want!r}',
                                             {'law': 'parse_bracket', 'text': text, 'brackets': k, 'expected': want}))
                            # every listed block is a group of the scanned kind (groups of other kinds and strings are
                            # opaque): compared with an independent scan, for the spaced and the unspaced rendering
                            for seps in (', ', ','):
                                ai3, ki3 = iter(atoms), iter(kinds)
                                t2 = render(shape, ai3, ki3, seps, seps)
                                evals += 1
                                try:
                                    got_all = BlockParser.parse_bracket(t2, k)
                                except Exception as e:  # noqa
                                    got_all = f'raises:{type(e).__name__}'
                                want_all = ref_blocks(t2, k)
                                outcomes.add(('blocks', len(want_all), got_all == want_all))
                                if got_all != want_all:
                                    viol.append((['parse_bracket', 'blocks', 'atoms=' + ','.join(classes or ['plain'])],
                                                 f'parse_bracket({t2!r}, {k!r}) = {got_all!r}, expected {want_all!r}',
                                                 {'law': 'parse_bracket_all', 'text': t2, 'brackets': k, 'expected': want_all}))
    if poisoned:
        viol = [(sig + ['history=after-unbalanced-texts'], what + ' (after calls with the texts POISONS)', dict(rep, after=True)) for sig, what, rep in viol]
    return evals, len(nontrivial), sorted(map(str, outcomes)), viol, selfcheck_fail[:3]


# ---------------------------------------------------------------- decorator / parameter recomposition

DECO_PATHS = ['Embed.alias', 'a.b.c', 'deco']
DECO_ARGS_Q = ['1', '"s"', '"a,b"', 'f(1, 2)', 'k=v', 'k="a=b, c"', 'l[0]', '{"a": 1, "b": 2}', 'T<A, B>(x)', "'q'", '"(x"', '"a,  b"', '"p\tq"', '"a=b"', 'f(x=1)', 'a == b', 'w = 1']
PARAM_TYPES = ['int', 'const int&', 'int*', 'std::map<std::string, int>', 'const T<A, B>&', 'std::function<int(int, int)>', 'std::vector<std::map<int, A>>*']
PARAM_NAMES = ['n', 'dsn']
PARAM_DEFAULTS = [None, '0', '{}', 'f(1, "a,b")', '"a=b"', 'A<B, C>(1)', '{1, 2}', "'='", '"(x"', 'std::map<int, int>{{1, 2}}', '"a,  b"', '"p\tq"', '{"x  =  y", "p\tq"}', "' '"]


def deco_param_cases(ctx, viol, stats):
    from rogw.tranp.view.helper.decorator import DecoratorHelper
    from rogw.tranp.implements.cpp.view.cpp_view_helper import CppViewHelper
    n = 0
    max_args = 2 if ctx.quick else 3
    for path in DECO_PATHS:
        for k in range(0, max_args + 1):
            for args in itertools.product(DECO_ARGS_Q, repeat=k):
                for sep in [', ', ',']:
                    is_labelled = lambda a: re.fullmatch(r'[A-Za-z_]\w*\s*=(?!=).*', a, flags=re.DOTALL) is not None   # noqa: E731
                    labels = [a.split('=')[0] for a in args if is_labelled(a)]
                    if len(set(labels)) != len(labels):
                        continue
                    text = f'{path}({sep.join(args)})' if k or True else path
                    exp_args = {}
                    for i, a in enumerate(args):
                        if is_labelled(a):
                            label, _, val = a.partition('=')
                            exp_args[label.strip()] = val.strip()
                        else:
                            exp_args[str(i)] = a
                    n += 1
                    want = (path, exp_args, sep.join(args))
                    # every order of first reading the three lazily computed properties of a fresh helper
                    got = want
                    for order in itertools.permutations(('path', 'args', 'join_args')):
                        try:
                            h = DecoratorHelper(text)
                            vals = {}
                            for prop in order:
                                vals[prop] = getattr(h, prop)
                            # look-ups must not change the helper: absent keys / positions, pattern queries
                            for probe in (lambda: h.arg_by('zz_absent'), lambda: h.arg_by('zz_absent', ''), lambda: h.arg_at(99), lambda: h.any('zz'), lambda: h.match('zz'),
                                          lambda: h.any_args('zz'), lambda: h.match_args('zz'), lambda: h.arg):
                                try:
                                    probe()
                                except Exception:  # noqa  -- refusing an absent key is fine
                                    pass
                            again = (h.path, dict(h.args), h.join_args)
                            cur = (vals['path'], dict(vals['args']), vals['join_args'])
                            if cur == want and again != want:
                                cur = again
                        except Exception as e:  # noqa
                            cur = f'raises:{type(e).__name__}'
                        if cur != want:
                            got = cur
                            if order != ('path', 'args', 'join_args'):
                                viol.append((['decorator', 'property-order', '-'.join(order)], f'DecoratorHelper({text!r}) read in the order {order} -> {cur!r}, expected {want!r}', {'law': 'decorator', 'text': text, 'expected': [path, exp_args, sep.join(args)], 'order': list(order)}))
                                got = want
                            break
                    if got != want:
                        cls = sorted({special_class(a) for a in args} - {'plain'})
                        viol.append((['decorator', 'raises' if isinstance(got, str) else 'wrong-args', 'atoms=' + ','.join(cls or ['plain'])],
                                     f'DecoratorHelper({text!r}) -> {got!r}, expected {want!r}', {'law': 'decorator', 'text': text, 'expected': [path, exp_args, sep.join(args)]}))
        # no-argument form
        n += 1
        h = DecoratorHelper(path)
        if (h.path, h.args, h.join_args) != (path, {}, ''):
            viol.append((['decorator', 'bare-path'], f'DecoratorHelper({path!r})', {'law': 'decorator', 'text': path, 'expected': [path, {}, '']}))
    # parse_pair: a group of exactly two elements gives (first, second) as its first pair, whatever the elements hold
    # (strings with the delimiter, groups of other kinds, a nested group of the same kind), with and without a blank after the delimiter
    from rogw.tranp.view.helper.block import BlockParser as _BP
    pair_items = {':': ['a', 'b1', '"k, 1"', 'f(x, y)', 'm[0]', "'q'", '"v: w"', '"(x"', 'T<A, B>', '{p: q}', 'g(1, {r: s})'],
                  ',': ['a', 'b1', '"k, 1"', 'f(x: y)', 'm[0]', "'q'", '"(x"', 'k=v', '{p, q}', 'T<A, B>', 'tag[A, B](b)']}
    for kind, delim in (('{}', ':'), ('()', ','), ('[]', ','), ('<>', ','), ('{}', ',')):
        for prefix in ('', 'tag'):
            for k_text, v_text in itertools.product(pair_items[delim], repeat=2):
                for sep in (delim + ' ', delim, f' {delim} '):
                    if any(ch in (k_text + v_text) for ch in kind) and not all((kind[0] in x) == (kind[1] in x) and not (x[0] in '"\'' and (kind[0] in x or kind[1] in x)) for x in (k_text, v_text)):
                        continue   # a string holding the scanned bracket is outside the stated domain
                    if any(delim in re.sub(r'"[^"]*"|\'[^\']*\'|\([^()]*\)|\[[^\[\]]*\]|\{[^{}]*\}|<[^<>]*>', '', x) for x in (k_text, v_text)):
                        continue   # the delimiter at the top level of an element would make it three elements
                    text = f'{prefix}{kind[0]}{k_text}{sep}{v_text}{kind[1]}'
                    n += 1
                    try:
                        got = _BP.parse_pair(text, kind, delim)
                        first = tuple(x.strip() for x in got[0]) if got else None
                    except Exception as e:  # noqa
                        first = f'raises:{type(e).__name__}'
                    if first != (k_text, v_text):
                        shape = 'group-then-suffix' if any(kind[1] in x and not x.endswith(kind[1]) for x in (k_text, v_text)) else ('blank-before-delimiter' if sep.startswith(' ') else 'plain')
                        viol.append((['parse_pair', 'first-pair', 'raises' if isinstance(first, str) else 'wrong', f'brackets={kind}', shape],
                                     f'parse_pair({text!r}, {kind!r}, {delim!r})[0] = {first!r}, expected {(k_text, v_text)!r}', {'law': 'parse_pair', 'text': text, 'brackets': kind, 'delim': delim, 'expected': [k_text, v_text]}))
    for t in PARAM_TYPES:
        for name in PARAM_NAMES:
            for d in PARAM_DEFAULTS:
                for eq in [' = ', '=']:
                    if d is None and eq == '=':
                        continue
                    text = f'{t} {name}' + (f'{eq}{d}' if d is not None else '')
                    n += 1
                    try:
                        p = CppViewHelper.Param.parse(text)
                        got = (p.var_type, p.symbol, p.default_value)
                    except Exception as e:  # noqa
                        got = f'raises:{type(e).__name__}'
                    want = (t, name, d or '')
                    if got != want:
                        viol.append((['param', 'raises' if isinstance(got, str) else 'wrong', f'default={special_class(d) if d else "none"}' + (',has-brackets' if d and any(c in d for c in '([{<') else '')],
                                     f'Param.parse({text!r}) -> {got!r}, expected {want!r}', {'law': 'param', 'text': text, 'expected': list(want)}))
    # same-kind nesting: every ordered forest with <= 4 groups of one bracket kind; parse_bracket must return exactly the
    # groups of that kind, outermost first in document order, each balanced
    from rogw.tranp.view.helper.block import BlockParser

    def forests(k):
        if k == 0:
            yield ()
            return
        for first in range(1, k + 1):
            for sub in forests(first - 1):
                for rest in forests(k - first):
                    yield (sub,) + rest

    def render_forest(f, o, c, counter):
        out = []
        for sub in f:
            counter[0] += 1
            name = 'abcdefgh'[counter[0] % 8]
            inner = render_forest(sub, o, c, counter)
            out.append(f'{name}{o}{inner or name}{c}')
        return ', '.join(out)

    def ref_groups(text, o, c):
        res, stack = [], []
        for i, ch in enumerate(text):
            if ch == o:
                stack.append((i, len(res)))
                res.append(None)
            elif ch == c:
                b, slot = stack.pop()
                res[slot] = text[b:i + 1]
        return res
    for br in ['()', '[]', '{}', '<>']:
        for k in range(1, 5):
            for f in forests(k):
                if len(f) != 1:
                    continue   # parse_bracket is applied to one outer group
                text = render_forest(f, br[0], br[1], [0])
                n += 1
                try:
                    got = BlockParser.parse_bracket(text, br)
                except Exception as e:  # noqa
                    got = f'raises:{type(e).__name__}'
                want = ref_groups(text, br[0], br[1])
                if got != want:
                    depth = max(text[:i].count(br[0]) - text[:i].count(br[1]) for i in range(len(text) + 1))
                    viol.append((['parse_bracket', 'nested-groups', f'depth={depth}'], f'parse_bracket({text!r}, {br!r}) = {got!r}, expected {want!r}', {'law': 'parse_bracket_all', 'text': text, 'brackets': br, 'expected': want}))
    stats['deco_param_cases'] = n
    return n


def run(ctx):
    n_max = 5 if ctx.quick else 6
    depth = 3
    specials = SPECIAL_Q if ctx.quick else SPECIAL_T
    max_special = 1 if ctx.quick else 2
    shapes = []
    for n in range(1, n_max + 1):
        shapes.extend(frags(n, depth))
    ctx.log(f'{len(shapes)} shapes with size <= {n_max} (atoms + groups), depth <= {depth}')
    chunks = pool.chunked(shapes, max(1, len(shapes) // (ctx.workers * 8) + 1))
    tasks = [(c, specials, max_special, not ctx.quick, SPECIAL_Q, i % 2 == 1) for i, c in enumerate(chunks)]
    results = pool.pmap(worker, tasks, workers=ctx.workers, rotate=ctx.seed)
    evals = nontriv = 0
    outcomes = set()
    selffail = []
    for e, nt, oc, viol, sf in results:
        evals += e
        nontriv += nt
        outcomes.update(oc)
        ctx.merge(viol)
        selffail.extend(sf)
    if selffail:
        from mc.core.runner import HarnessError
        raise HarnessError(f'reference splitter disagrees with construction: {selffail[:2]}')
    stats = {}
    viol = []
    n2 = deco_param_cases(ctx, viol, stats)
    ctx.merge(viol)
    # the same recomposition cases once more in this process after the helpers have seen the unbalanced texts
    seen = {(tuple(sig), what) for sig, what, _ in viol}
    n_poison = poison()
    viol2 = []
    n2 += deco_param_cases(ctx, viol2, {})
    ctx.merge([(sig + ['history=after-unbalanced-texts'], what + ' (after calls with the texts POISONS)', dict(rep, after=True)) for sig, what, rep in viol2 if (tuple(sig), what) not in seen])
    # samples
    samples = []
    for shape in [shapes[0], shapes[len(shapes) // 2], shapes[-2]]:
        a, g = count_atoms_groups(shape)
        samples.append({'fragment': render(shape, iter(PLAIN[:a]), iter(['()', '[]', '<>', '{}'] * 3), ', ', ', '), 'delimiter': ','})
    samples.append({'fragment': 'f("(x", b1), c', 'delimiter': ','})
    samples.append({'param': 'const T<A, B>& n = f(1, "a,b")'})
    return {
        'evaluations': evals + n2,
        'distinct_nontrivial': nontriv + n2,
        'rule': f'all fragment shapes with size (atoms + groups) <= {n_max} and group nesting <= {depth} (elements: atom | atom+group | group; empty groups included) x all bracket-kind assignments x delimiters {DELIMS} (spaced and unspaced) x atom assignments with one special atom from {specials} + (if bound 2) pairs from {SPECIAL_Q}; non-trivial = more than one top-level piece or at least one group; plus decorator/parameter recomposition cases',
        'samples': samples,
        'shapes': len(shapes),
        'history': f'every second chunk of shapes and a second pass of the recomposition cases are judged after {n_poison} helper calls on {len(POISONS)} texts outside the quantifier (unclosed groups and strings, comparisons, escaped quotes)',
        'distinct_outcomes': sorted(outcomes)[:40],
        'exhaustive': True,
        'bound': f'atoms+groups<={n_max}, depth<={depth}, specials<={max_special}',
        'out_of_domain': 'a delimiter in last position (dangling) is not generated; strings containing a bracket of the kind being scanned are excluded for break_last_block/parse_bracket',
    }


def replay(ctx, data):
    from rogw.tranp.view.helper.block import BlockParser
    law = data['law']
    if data.get('after'):
        poison()
    if law == 'break_separator':
        got = BlockParser.break_separator(data['text'], data['delim'])
        if got != data['expected']:
            ctx.violation(['break_separator', 'replay'], f'{data["text"]!r} -> {got!r}, expected {data["expected"]!r}', data)
    elif law == 'break_last_block':
        got = BlockParser.break_last_block(data['text'], data['brackets'])
        if list(got) != data['expected']:
            ctx.violation(['break_last_block', 'replay'], f'{data["text"]!r} -> {got!r}', data)
    elif law == 'parse_bracket_all':
        got = BlockParser.parse_bracket(data['text'], data['brackets'])
        if got != data['expected']:
            ctx.violation(['parse_bracket', 'replay'], f'{data["text"]!r} -> {got!r}', data)
    elif law == 'parse_bracket':
        got = BlockParser.parse_bracket(data['text'], data['brackets'])
        if not got or got[0] != data['expected']:
            ctx.violation(['parse_bracket', 'replay'], f'{data["text"]!r} -> {got!r}', data)
    elif law == 'parse_pair':
        got = BlockParser.parse_pair(data['text'], data['brackets'], data['delim'])
        if not got or [x.strip() for x in got[0]] != data['expected']:
            ctx.violation(['parse_pair', 'replay'], f'{data["text"]!r} -> {got!r}', data)
    elif law == 'decorator':
        from rogw.tranp.view.helper.decorator import DecoratorHelper
        h = DecoratorHelper(data['text'])
        for prop in data.get('order', []):
            try:
                getattr(h, prop)
            except Exception:  # noqa
                pass
        try:
            ok = [h.path, dict(h.args), h.join_args] == data['expected']
        except Exception:  # noqa
            ok = False
        if not ok:
            ctx.violation(['decorator', 'replay'], f'{data["text"]!r} read in the order {data.get("order")}: does not give {data["expected"]!r}', data)
            return
        if [h.path, dict(h.args), h.join_args] != data['expected']:
            ctx.violation(['decorator', 'replay'], f'{data["text"]!r} -> {(h.path, h.args, h.join_args)!r}', data)
    elif law == 'param':
        from rogw.tranp.implements.cpp.view.cpp_view_helper import CppViewHelper
        p = CppViewHelper.Param.parse(data['text'])
        if [p.var_type, p.symbol, p.default_value] != data['expected']:
            ctx.violation(['param', 'replay'], f'{data["text"]!r} -> {(p.var_type, p.symbol, p.default_value)!r}', data)
