#!/usr/bin/env python3
"""Dev-time helper (never used by a check): run a check and append every unlisted violation as an 'open' finding.

Usage: tools/record_findings.py C01 [--tier quick]   -- review and edit known_findings.json afterwards.
"""
import json, os, re, subprocess, sys
VERIF = os.path.dirname(os.path.dirname(os.path.abspath(__file__)))
prop = sys.argv[1]
env = dict(os.environ, VERIF_MAX_REPORT='1000')
out = subprocess.run([os.path.join(VERIF, 'check'), prop] + sys.argv[2:], capture_output=True, text=True, env=env).stdout
path = os.path.join(VERIF, 'known_findings.json')
data = json.load(open(path))
have = {json.dumps(f['signature']) for f in data['findings'] if f['property'] == prop}
blocks = out.split(f'VIOLATION property={prop} replay=')[1:]
n = 0
for b in blocks:
    lines = b.split('\n')
    replay = lines[0].strip()
    sig = json.loads(lines[1].split('signature=', 1)[1])
    what = lines[2].split('what=', 1)[1] if len(lines) > 2 and 'what=' in lines[2] else ''
    if json.dumps(sig) in have:
        continue
    rep = json.load(open(replay))['replay'] if os.path.exists(replay) else {}
    data['findings'].append({'property': prop, 'signature': sig, 'status': 'open', 'what_fails': what[:300], 'input': rep})
    n += 1
json.dump(data, open(path, 'w'), indent=1, ensure_ascii=False)
open(path, 'a').write('\n')
print(f'added {n} open findings for {prop}')
