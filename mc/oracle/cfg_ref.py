"""Reference recogniser for the grammars of tranp's own parsing engine (C11, C12).

A boring context-free membership test over a token list: ends(entry, i) is the set of positions at which a
match of `entry` starting at i can end.  Left recursion (primary := relay | ..., relay := primary "." name)
is handled by iterating the demand-driven evaluation to its least fixpoint.  Terminal comparison follows the
documented rule of the engine: an Equals terminal matches the identical token string; a Regexp terminal
matches by re.fullmatch and never matches a token that is a keyword (= any Equals terminal of the grammar).
Nothing of the engine's matching code is used: only the Rules data (Pattern/Patterns) is read.
"""
import re


class Recognizer:
    def __init__(self, rules) -> None:
        from rogw.tranp.implements.syntax.tranp.rule import Comps, Operators, Pattern, Patterns, Repeators, Roles
        self.rules = rules
        self.K = (Comps, Operators, Pattern, Patterns, Repeators, Roles)
        self.keywords = set()
        for sym in rules.keys():
            self._collect(rules[sym])
        self._re = {}

    def _collect(self, e) -> None:
        Comps, _, Pattern, _, _, Roles = self.K
        if isinstance(e, Pattern):
            if e.role == Roles.Terminal and e.comp == Comps.Equals:
                self.keywords.add(e.expression)
        else:
            for x in e.entries:
                self._collect(x)

    def _terminal(self, p, tok: str) -> bool:
        Comps = self.K[0]
        if p.comp == Comps.Equals:
            return p.expression == tok
        if tok in self.keywords:
            return False
        rx = self._re.get(p.expression)
        if rx is None:
            rx = self._re[p.expression] = re.compile(p.expression)
        return rx.fullmatch(tok) is not None

    def accepts(self, tokens: list, start: str) -> bool:
        n = len(tokens)
        table: dict = {}
        while True:
            self._changed = False
            self._active: set = set()
            self._done: set = set()
            res = self._symbol(start, 0, tokens, table)
            if not self._changed:
                return n in res

    def _symbol(self, sym: str, i: int, tokens, table) -> frozenset:
        key = (sym, i)
        if key in self._done or key in self._active:
            return table.get(key, frozenset())
        self._active.add(key)
        res = self._entry(self.rules[sym], i, tokens, table)
        self._active.discard(key)
        old = table.get(key, frozenset())
        new = old | res
        if new != old:
            table[key] = new
            self._changed = True
        self._done.add(key)
        return new

    def _entry(self, e, i: int, tokens, table) -> frozenset:
        Comps, Operators, Pattern, Patterns, Repeators, Roles = self.K
        if isinstance(e, Pattern):
            if e.role == Roles.Symbol:
                return self._symbol(e.expression, i, tokens, table)
            if i < len(tokens) and self._terminal(e, tokens[i]):
                return frozenset([i + 1])
            return frozenset()
        once = (lambda j: self._once(e, j, tokens, table))
        if e.rep == Repeators.NoRepeat:
            return once(i)
        if e.rep in (Repeators.OneOrZero, Repeators.OneOrEmpty):
            return once(i) | frozenset([i])
        # repetitions: closure of `once`
        seen = set([i]) if e.rep == Repeators.OverZero else set()
        frontier = set(once(i)) if e.rep == Repeators.OverOne else set([i])
        if e.rep == Repeators.OverOne:
            seen |= frontier
        else:
            frontier = set([i])
        todo = list(frontier)
        visited = set()
        while todo:
            j = todo.pop()
            if j in visited:
                continue
            visited.add(j)
            for k in once(j):
                if k not in seen:
                    seen.add(k)
                if k not in visited and k != j:
                    todo.append(k)
        return frozenset(seen)

    def _once(self, e, i: int, tokens, table) -> frozenset:
        Operators = self.K[1]
        if e.op == Operators.Or:
            out = frozenset()
            for x in e.entries:
                out |= self._entry(x, i, tokens, table)
            return out
        cur = frozenset([i])
        for x in e.entries:
            nxt = set()
            for j in cur:
                nxt |= self._entry(x, j, tokens, table)
            cur = frozenset(nxt)
            if not cur:
                break
        return cur
