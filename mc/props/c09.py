"""C09 -- every handler receives exactly the results of its own children.

Engine E2 (+ deviation-bounded nesting): an identity procedure (every handler returns its node and records
its keyword arguments) is run over every tree of the sentence corpus and every real module. For every
visited node n and every expandable property k: event[k] must be exactly getattr(n, k) (single vs list,
order, identity by module+path+class). Nested processing: at every handler invocation position the
environment may start a nested exec on one of the node's children (0, 1 and -- thorough -- 2 nested starts
per run); the outer observations must not change and the nested run must return its own root.
"""
from mc.core import pool
from mc.gen import corpus

ID = 'C09'
LEVEL = 'exploration'

_state = {}


def _init_worker():
    from mc.tranp.session import Session
    from rogw.tranp.syntax.ast.entrypoints import Entrypoints
    s = Session({'__main__': 'a = 1\n'})
    _state['session'] = s
    _state['eps'] = s.get(Entrypoints)


def ident(n):
    return (type(n).__name__, n.full_path)


def run_identity(root, nest_at=(), nest_mode='ok'):
    """Returns (log, result, leftover stacks). log: list of (node ident, {k: ident | [ident]}), nested runs logged apart."""
    from rogw.tranp.semantics.procedure import Procedure
    proc = Procedure()
    log, nested_log = [], []
    counter = [0]
    depth = [0]

    other = Procedure()   # a second procedure (as Reflections / Py2Cpp each own one): nested runs may go to it

    def other_handler(node, **kwargs):
        if nest_mode.endswith('raise'):
            raise RuntimeError('failure inside the nested run')
        return node
    other.on('on_fallback', other_handler)

    def handler(node, **kwargs):
        if depth[0] > 0:
            if nest_mode.endswith('raise'):
                raise RuntimeError('failure inside the nested run')
            return node
        i = counter[0]
        counter[0] += 1
        ev = {}
        for k, v in kwargs.items():
            ev[k] = [ident(x) for x in v] if isinstance(v, list) else ident(v)
        log.append((node, ev))
        if i in nest_at:
            # what Py2Cpp does for annotations and aliases: process a child tree with the same procedure, inside a handler
            target = None
            for k in node.prop_keys():
                v = getattr(node, k)
                if isinstance(v, list) and v:
                    target = v[0]
                    break
                if not isinstance(v, list):
                    target = v
                    break
            if target is not None:
                depth[0] += 1
                try:
                    r = (other if nest_mode.startswith('other') else proc).exec(target)
                    nested_log.append((ident(target), ident(r)))
                except Exception:  # noqa  -- the handler deals with the failure of its nested run and carries on
                    if not nest_mode.endswith('raise'):
                        raise
                    nested_log.append((ident(target), ident(target)))
                finally:
                    depth[0] -= 1
        return node

    proc.on('on_fallback', handler)
    result = proc.exec(root)
    return log, result, list(proc._Procedure__stacks), nested_log


def judge_tree(root, label, text, max_nest, nest_cap):
    """Yields violations for one tree."""
    from rogw.tranp.errors import Errors
    viol = []
    seen = set()

    def add(sig, what):
        if tuple(sig) not in seen:
            seen.add(tuple(sig))
            viol.append((sig, f'{label}: {what}', {'src': text} if text is not None else {'module': label}))
    try:
        log, result, stacks, _ = run_identity(root)
    except Errors.Error as e:
        node = e.args[0] if e.args and hasattr(e.args[0], 'full_path') else None
        add(['exec-raises', type(e).__name__, type(node).__name__ if node is not None else '?'], f'identity procedure raised {type(e).__name__}: {str(e)[:200]}')
        return viol, 0, 0
    except Exception as e:  # noqa
        add(['exec-crash', type(e).__name__], f'identity procedure raised {type(e).__name__}: {str(e)[:200]}')
        return viol, 0, 0
    if result is not root and ident(result) != ident(root):
        add(['final-result'], f'exec returned {ident(result)}, root is {ident(root)}')
    if stacks:
        add(['stack-not-released'], f'{len(stacks)} stacks left after exec')
    base_obs = []
    for node, ev in log:
        cls = type(node).__name__
        keys = node.prop_keys()
        if set(ev.keys()) != set(keys):
            add(['event-keys', cls], f'{ident(node)}: event keys {sorted(ev)} vs properties {sorted(keys)}')
            continue
        for k in keys:
            want = getattr(node, k)
            if isinstance(want, list):
                w = [ident(x) for x in want]
                if not isinstance(ev[k], list):
                    add(['single-for-list', cls, k], f'{ident(node)}.{k}: got single {ev[k]}, property yields list {w}')
                elif ev[k] != w:
                    add(['wrong-results', cls, k, 'list'], f'{ident(node)}.{k}: got {ev[k]}, own children are {w}')
            else:
                w = ident(want)
                if isinstance(ev[k], list):
                    add(['list-for-single', cls, k], f'{ident(node)}.{k}: got list {ev[k]}, property yields {w}')
                elif ev[k] != w:
                    add(['wrong-results', cls, k, 'single'], f'{ident(node)}.{k}: got {ev[k]}, own child is {w}')
        base_obs.append((ident(node), ev))
    n = len(log)
    runs = 1
    # nested processing, deviation bounded
    if max_nest >= 1 and not viol:
        positions = list(range(n)) if n <= nest_cap else [int(i * (n - 1) / (nest_cap - 1)) for i in range(nest_cap)]
        combos = [(p,) for p in positions]
        if max_nest >= 2 and n <= 40:
            combos += [(p, q) for p in positions for q in positions if p < q]
        modes = ['ok', 'raise', 'other-ok', 'other-raise']
        for nest, mode in [(n_, m_) for n_ in combos for m_ in (modes if len(n_) == 1 else modes[:2])]:
            runs += 1
            try:
                log2, result2, stacks2, nested = run_identity(root, nest, mode)
            except Exception as e:  # noqa
                add(['nested-raises', type(e).__name__, f'nest={len(nest)}', mode], f'nested exec ({mode}) at {nest} raised {type(e).__name__}: {str(e)[:200]}')
                continue
            obs2 = [(ident(nd), ev) for nd, ev in log2]
            if obs2 != base_obs or ident(result2) != ident(root) or stacks2:
                i = next((j for j in range(min(len(obs2), len(base_obs))) if obs2[j] != base_obs[j]), None)
                where = base_obs[i][0][0] if i is not None else 'length/result'
                add(['nested-disturbs-outer', f'nest={len(nest)}', mode, where], f'nested exec ({mode}) at positions {nest}: outer observation #{i} changed')
            for t, r in nested:
                if t != r:
                    add(['nested-result', t[0]], f'nested exec on {t} returned {r}')
    return viol, n, runs


def worker(task):
    texts, max_nest = task
    out = []
    s, eps = _state['session'], _state['eps']
    for t in texts:
        src = t if t.endswith('\n') else t + '\n'
        try:
            import ast
            ast.parse(src)
        except (SyntaxError, ValueError):
            out.append((None, 0, 0))   # lark-only sentence: not a program
            continue
        s.sources['__main__'] = src
        eps.unload('__main__')
        try:
            root = eps.load('__main__')
        except Exception:  # noqa  -- not in the grammar
            out.append((None, 0, 0))
            continue
        out.append(judge_tree(root, repr(t)[:80], t, max_nest, 30))
    return out


def real_worker(task):
    mod, max_nest = task
    try:
        root = _state['eps'].load(mod)
    except Exception:  # noqa
        return None, 0, 0
    return judge_tree(root, mod, None, max_nest, 12)


def run(ctx):
    sents = corpus.sentence_corpus(ctx.quick) + corpus.block_programs()
    reals = corpus.real_modules()
    max_nest = 1 if ctx.quick else 2
    ctx.log(f'{len(sents)} sentences, {len(reals)} real modules')
    res = pool.pmap(worker, [(c, max_nest) for c in pool.chunked(sents, 150)], workers=ctx.workers, init=_init_worker, rotate=ctx.seed)
    trees = nodes = runs = rejected = 0
    for r in res:
        for viol, n, k in r:
            if viol is None:
                rejected += 1
                continue
            trees += 1
            nodes += n
            runs += k
            ctx.merge(viol)
    res2 = pool.pmap(real_worker, [(m, 1) for m, _, _ in reals], workers=ctx.workers, init=_init_worker, rotate=ctx.seed)
    real_ok = 0
    for viol, n, k in res2:
        if viol is None:
            continue
        real_ok += 1
        nodes += n
        runs += k
        ctx.merge(viol)
    return {
        'evaluations': runs,
        'distinct_nontrivial': trees + real_ok,
        'rule': f'identity procedure over every tree of the sentence corpus and every real module; every handler invocation judged against the node\'s own properties; nested exec started at every handler position (<= {max_nest} nested starts per run; positions capped at 30 evenly spaced for larger trees, 12 for real modules); non-trivial = tree accepted by the grammar',
        'samples': sents[:2] + sents[len(sents) // 2: len(sents) // 2 + 2] + [m for m, _, _ in reals[:2]],
        'handler_invocations_judged': nodes,
        'real_modules': real_ok,
        'rejected_by_grammar': rejected,
        'exhaustive': True,
        'bound': f'corpus as stated; nesting deviations <= {max_nest}',
    }


def replay(ctx, data):
    _init_worker()
    if 'src' in data:
        r = worker(([data['src']], 2))
        for viol, _, _ in r:
            ctx.merge(viol or [])
    else:
        viol, _, _ = real_worker((data['module'], 1))
        ctx.merge(viol or [])
